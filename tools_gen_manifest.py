"""Regenerates MANIFEST.json from the table below (keeps it valid and in sync)."""
import json

PY = "/venv/bin/python"
CLAIMED = {
    "C20": dict(
        engine="D",
        technique="deterministic simulation: seeded histories of generator calls under simulated os.urandom and disturbed global PRNG state, fresh-process differential oracle, stream reference models",
        text="Seeded exploration of call histories (all registry names, n in 1..2048 plus larger n at every residue mod 64, seed classes up to >2^160, repeated/interleaved calls, host disturbance of random/numpy global state, re-keyed simulated entropy). Range is checked on every call; purity against the same triple elsewhere in the history and in a fresh process with another entropy key; java.util.Random/BigInteger and truncated-LCG reference models. Sampling, not proof; the two recorded defects (F6, F7) are reported as KNOWN-FINDING.",
        note="Trusts: SimEntropy replaces rng.os only (C-level seeding of unseeded mt19937/numpy generators is not controlled and those values are only range-checked); the JDK transcription and L'Ecuyer multiplier table in dst/engine_d.py.",
        design_ref="DESIGN.md §4 C20"),
}
NA = {
    "C01": "pure: every clause is the value returned by a stateless factoring helper at one modulus (divisibility of reported factors); no history, seam, clock or fault enters — not a simulation target (DESIGN §5)",
    "C02": "pure: truth of a recorded discrete log is a function of (point, value); no state in the statement; cache effects are decided under C17/C10",
    "C03": "BatchGCD/product trees are stateless functions of the value list; permutations/duplicates are input symmetries, not schedules",
    "C04": "detection region of stateless factoring functions over (p, q, bound); nothing for a simulator to control",
    "C05": "same as C04 for the lattice/heuristic factoring functions",
    "C06": "closed-form predicates of (n, e, point, supplied list); the Storage object is a constant data provider in the statement",
    "C08": "success of lattice attacks as a function of the signature set; its one neighbourhood clause is decided under C17",
    "C09": "an arithmetic identity of pure functions and byte/int conversions",
    "C11": "group law of stateless methods on explicit operands; the _cache memo is observed under C17",
    "C12": "p-value formulas of stateless functions of a bit string",
    "C14": "equality of three stateless implementations and two closed forms",
    "C15": "bit-string primitives, stateless",
    "C19": "number-theory, lattice and linear-algebra helpers, stateless",
}
PENDING = {p: "claimed by DESIGN.md, check still under construction in this round (will move to checks when its engine lands)" for p in ("C07", "C10", "C13", "C16", "C17", "C18")}

def main():
    checks = []
    for pid, c in sorted(CLAIMED.items()):
        checks.append({
            "property_id": pid,
            "quick_cmd": "%s -m dst.cli check %s --tier quick" % (PY, pid),
            "thorough_cmd": "%s -m dst.cli check %s --tier thorough" % (PY, pid),
            "evidence_file": "/verif/evidence/%s.json" % pid,
            "replay_cmd_template": "%s -m dst.cli replay {path}" % PY,
            "engine": c["engine"],
            "level_claimed": {"category": "exploration", "text": c["text"], "design_ref": c["design_ref"]},
            "level_note": c["note"],
            "technique": c["technique"],
        })
    na = [{"property_id": k, "reason": v} for k, v in sorted({**NA, **PENDING}.items())]
    m = {
        "version": 1,
        "setup_cmd": "%s -m dst.setup" % PY,
        "hooks": {
            "guard": "GOOGLE_PARANOID_CRYPTO_VERIF (unused: no hook was added to /repo; every seam is reached by module-attribute replacement, constructor arguments or sys.modules)",
            "enable": "nothing to enable; checks import /repo's working tree through dst/overlay.py",
            "baseline_off_cmd": "cd /repo && /venv/bin/python -m pytest -ra -q -p no:cacheprovider --timeout=900 --continue-on-collection-errors",
            "source_commits": [],
            "add_only": True,
        },
        "engines": [
            {"name": "A", "path": "dst/engine_a.py", "serves_properties": ["C07", "C16", "C17", "C18", "C10"], "kind_free_text": "artifact-pipeline histories (RSA/EC/ECDSA) in forked subject processes with restart, seam faults, fresh-process oracle and bookkeeping reference model"},
            {"name": "B", "path": "dst/engine_b.py", "serves_properties": ["C10"], "kind_free_text": "EcCurve table-cache histories on named and tiny prime-order curves"},
            {"name": "C", "path": "dst/engine_c.py", "serves_properties": ["C13"], "kind_free_text": "randomness-suite driver under scripted p-value streams, simulated clock and source faults; end-to-end runs with real tests"},
            {"name": "D", "path": "dst/engine_d.py", "serves_properties": ["C20"], "kind_free_text": "generator call histories under simulated entropy and disturbed global PRNG state"},
        ],
        "checks": checks,
        "not_applicable": na,
        "notes": "Technique family: deterministic simulation with fault injection. See DESIGN.md. Exit codes: 0 held, 1 violation (VIOLATION line), 2 harness error.",
    }
    json.dump(m, open("MANIFEST.json", "w"), indent=1, sort_keys=False)
    print("MANIFEST.json written: %d checks, %d not_applicable" % (len(checks), len(na)))

if __name__ == "__main__":
    import sys
    # PENDING entries are passed by editing this file.
    main()
