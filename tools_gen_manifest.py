"""Regenerates MANIFEST.json from the table below (keeps it valid and in sync)."""
import json

PY = "/venv/bin/python"
CLAIMED = {
    "C20": dict(
        engine="D",
        technique="deterministic simulation: seeded histories of generator calls under simulated os.urandom and disturbed global PRNG state, fresh-process differential oracle, stream reference models",
        text="Seeded exploration of call histories (all registry names, n in 1..2048 plus larger n at every residue mod 64, seed classes up to >2^160, repeated/interleaved/adjacent same-seed calls, freshly constructed instances, host disturbance of random/numpy global state, re-keyed simulated entropy). Every n in 1..2048 is visited for every generator (one seed each) in directed histories. Range is checked on every call; purity against the same triple elsewhere in the history and in a fresh process with another entropy key; java.util.Random/BigInteger and truncated-LCG reference models. Sampling, not proof; the two recorded defects (F6, F7) are reported as KNOWN-FINDING.",
        note="Trusts: SimEntropy replaces rng.os only (C-level seeding of unseeded mt19937/numpy generators is not controlled and those values are only range-checked); the JDK transcription and L'Ecuyer multiplier table in dst/engine_d.py.",
        design_ref="DESIGN.md §4 C20"),
}
CLAIMED.update({
    "C16": dict(
        engine="A",
        technique="deterministic simulation: seeded call histories over caller-owned protobufs in forked subject processes (re-runs, pre-annotation, persist/reload, restart, resource/storage/allocation faults) checked step by step against an executable reference model of the annotation merge",
        text="Every check/check_all step of every history is executed on clean clones (per-call verdict V) and on the history-laden protobufs; after each step the real test_info must equal merge(pre, V) of a small independent model (result OR, severity max, factor-set union, no duplicate entries, weak flag, version), exactly one entry per declared active check after an all-checks call, documented severities, return value <=> some positive verdict, and CheckIssuerKey's verdict equals an in-process CheckAllEC oracle on the issuer keys. Histories include restarts with only the serialised protobufs surviving and healed faults: resource opens that fail or are torn, a Storage that raises mid-batch or in a constructor, and MemoryError at the k-th function entry of the library (sys.monitoring), also during the lazy registry fill. Sampling of histories, not proof.",
        note="Trusts: the in-memory protobuf substitute; that no check reads test_info (so V on a clean clone equals the verdict on the annotated original); README severity table as documentation; knob max_diff 2^8..2^16 instead of the shipped 2^24.",
        design_ref="DESIGN.md §4 C16"),
    "C17": dict(
        engine="A",
        technique="deterministic simulation: differential oracle between a long-lived subject process and pristine forked fresh-process children (alone / same batch / permuted / plus healthy / later in history / after restart), over seeded histories with faults",
        text="For sampled steps the same operation is evaluated in pristine forked children on the artifact alone, the same batch, a permutation and the batch plus healthy artifacts, and compared with the subject's verdict after its history; inside the subject every verdict of an individually judging check on the same artifact is compared across all steps. Individually judging checks must agree exactly (entry and evidence); jointly judging checks must agree under permutation/healthy additions and be monotone with respect to a fresh process where a cached table may legally find more. Histories leave caches, tables and singleton checks in different states (interleaved curve operations, restarts, healed allocation/resource faults). Batch-scale profiles push every per-call pool past plausible internal chunk sizes (more than 4 096 moduli in one aggregate call; 2 600..5 000 single-signature issuers on one curve around a few biased groups). Known finding F5 is reported as KNOWN-FINDING.",
        note="Trusts: fork gives a pristine library state (asserted at start-up); only non-marginal planted weaknesses are used so LLL order effects cannot flip verdicts; budgeted sampling of fresh queries.",
        design_ref="DESIGN.md §4 C17"),
    "C07": dict(
        engine="A",
        technique="deterministic simulation: invariant over seeded histories (healthy artifacts generated from the run PRNG are never accused in any step, neighbourhood, cache state, after restarts and healed faults)",
        text="Every pool contains healthy RSA keys (2048/3072/4096, independent random primes, e=65537), EC keys (uniform private keys on the eight strong curves) or ECDSA signatures (uniform nonces, healthy issuers); on every per-call verdict of every step the invariant 'no positive entry, weak flag clear, all-healthy batch returns False' is evaluated, with weak neighbours, at every position, after arbitrary earlier work. The neighbourhood/history clause is explored; the population clause is sampled at the workload rate reported in the evidence.",
        note="Trusts: the artifact generator (gmpy2 next_prime from a seeded PRNG, independent affine EC arithmetic) produces healthy artifacts; checks constructed with weaker-than-default parameters are excluded from this invariant.",
        design_ref="DESIGN.md §4 C07"),
    "C18": dict(
        engine="A",
        technique="deterministic simulation: crash-freedom invariant at every step of seeded histories over degenerate-heavy pools, including the first call after healed seam faults and after restarts",
        text="At every check/check_all step on a batch inside the statement's domain (any size incl. 0, duplicates, unknown/binary curve ids, coordinates empty/zero/p/huge/off-curve, moduli prime/even/square/power of two/odd length/64-bit, any exponent, r,s in [1,n-1] incl. malleated twins (r, n-s) and reused nonces under one issuer key, any hash length, invalid issuer keys) the call must return a bool without raising and within a per-call watchdog, in a fresh process, after any history, after restart and after a healed resource/storage/allocation fault (including MemoryError at an arbitrary function entry of an earlier call). Input coverage is sampling, not enumeration.",
        note="Trusts: the well-formedness predicate of the generator mirrors the statement's domain; calls made while a fault fires are not judged.",
        design_ref="DESIGN.md §4 C18"),
    "C10": dict(
        engine="B",
        technique="deterministic simulation: seeded cache histories on EcCurve objects (named singletons and tiny prime-order curves, exhaustive x on the tiny ones) with restarts and allocation failures inside the table build, planted-log oracle from independent arithmetic; plus check-level histories in engine A",
        text="BatchDL / BatchDLOfDifferences / BatchMultiplyG calls of different bounds and list lengths are interleaved on the same curve object so that each call meets a table left by a larger, smaller or differently-purposed earlier call; on tiny prime-order curves every x below the bound is checked for every (bound, length, history prefix) visited, on named curves x is biased to table and giant-step edges; close pairs must be flagged on both sides, identical keys not, relations must verify. A directed batch-scale plan hands BatchDLOfDifferences a history of more than 2^17 keys with close keys planted around every block boundary from 2^12. A non-gating asynchronous-abort probe (sys.monitoring line events) reports ROBUSTNESS-NOTE only. Engine A plants statement-derived structured private keys (all shifts that are multiples of 8, repeated words, boundary values) and small-difference pairs into EC histories, including tables above 2^20 entries.",
        note="Trusts: the independent affine arithmetic used for ground truth; tiny curves from brute-force point counting.",
        design_ref="DESIGN.md §4 C10"),
    "C13": dict(
        engine="C",
        technique="deterministic simulation: the suite driver as a state machine under scripted p-value streams, a stub Source, simulated clock jumps and source/test faults, checked against a reference decision model with an independent Fisher combination; end-to-end runs with real tests on seeded generators",
        text="Driver runs: real TestStructure/TestSource/TestBitString/CombinedPValue with stub tests returning scripted p-values (0, 1, ties with both levels, values just above/below thresholds, floats/ints/np.float64, named lists whose sub-tests appear late, InsufficientDataError on the j-th run, a Source that raises); the model predicts per-sub-test states, finished flags, the exact number of rounds and Source pulls, per-test run counts and the return value. A fault sweep kills a cheap suite call with MemoryError at its k-th library function entry and judges the following calls of the same process. End-to-end runs: seeded SHAKE128/PCG64/Philox must pass at 2^20..2^24 bits, the documented weak generators must fail the documented test at the documented sizes, and the decision rule is re-checked on the real p-values. A calibration profile holds 32 single-test suite calls per process lifetime on 2^20 fresh bits (RandomWalk weighted up) and pools the p-values per sub-test over all lifetimes: the count at or below 1e-2, 1e-3, 1e-4 and 1e-5 must be compatible with Bin(N, alpha) at the 1e-9 level (about 14 000 RandomWalk calls in the thorough tier).",
        note="Trusts: mpmath closed form of Fisher's method; near-ties (1e-9 relative) are accepted either way; statistical clauses are sampled over seeds.",
        design_ref="DESIGN.md §4 C13"),
})

NA = {
    "C01": "pure: every clause is the value returned by a stateless factoring helper at one modulus (divisibility of reported factors); no history, seam, clock or fault enters — not a simulation target (DESIGN §5)",
    "C02": "pure: truth of a recorded discrete log is a function of (point, value); no state in the statement; cache effects are decided under C17/C10",
    "C03": "BatchGCD/product trees are stateless functions of the value list; permutations/duplicates are input symmetries, not schedules",
    "C04": "detection region of stateless factoring functions over (p, q, bound); nothing for a simulator to control",
    "C05": "same as C04 for the lattice/heuristic factoring functions",
    "C06": "closed-form predicates of (n, e, point, supplied list); the Storage object is a constant data provider in the statement",
    "C08": "success of lattice attacks as a function of the signature set; its one neighbourhood clause is decided under C17",
    "C09": "an arithmetic identity of pure functions and byte/int conversions",
    "C11": "group law of stateless methods on explicit operands; the _cache memo is observed under C17",
    "C12": "p-value formulas of stateless functions of a bit string",
    "C14": "equality of three stateless implementations and two closed forms",
    "C15": "bit-string primitives, stateless",
    "C19": "number-theory, lattice and linear-algebra helpers, stateless",
}
PENDING = {}

def main():
    checks = []
    for pid, c in sorted(CLAIMED.items()):
        checks.append({
            "property_id": pid,
            "quick_cmd": "%s -m dst.cli check %s --tier quick" % (PY, pid),
            "thorough_cmd": "%s -m dst.cli check %s --tier thorough" % (PY, pid),
            "evidence_file": "/verif/evidence/%s.json" % pid,
            "replay_cmd_template": "%s -m dst.cli replay {path}" % PY,
            "engine": c["engine"],
            "level_claimed": {"category": "exploration", "text": c["text"], "design_ref": c["design_ref"]},
            "level_note": c["note"],
            "technique": c["technique"],
        })
    na = [{"property_id": k, "reason": v} for k, v in sorted({**NA, **PENDING}.items())]
    m = {
        "version": 1,
        "setup_cmd": "%s -m dst.setup" % PY,
        "hooks": {
            "guard": "GOOGLE_PARANOID_CRYPTO_VERIF (unused: no hook was added to /repo; every seam is reached by module-attribute replacement, constructor arguments or sys.modules)",
            "enable": "nothing to enable; checks import /repo's working tree through dst/overlay.py",
            "baseline_off_cmd": "cd /repo && /venv/bin/python -m pytest -ra -q -p no:cacheprovider --timeout=900 --continue-on-collection-errors",
            "source_commits": [],
            "add_only": True,
        },
        "engines": [
            {"name": "A", "path": "dst/engine_a.py", "serves_properties": ["C07", "C16", "C17", "C18", "C10"], "kind_free_text": "artifact-pipeline histories (RSA/EC/ECDSA) in forked subject processes with restart, seam faults, fresh-process oracle and bookkeeping reference model"},
            {"name": "B", "path": "dst/engine_b.py", "serves_properties": ["C10"], "kind_free_text": "EcCurve table-cache histories on named and tiny prime-order curves"},
            {"name": "C", "path": "dst/engine_c.py", "serves_properties": ["C13"], "kind_free_text": "randomness-suite driver under scripted p-value streams, simulated clock and source faults; end-to-end runs with real tests"},
            {"name": "D", "path": "dst/engine_d.py", "serves_properties": ["C20"], "kind_free_text": "generator call histories under simulated entropy and disturbed global PRNG state"},
        ],
        "checks": checks,
        "not_applicable": na,
        "notes": "Technique family: deterministic simulation with fault injection. See DESIGN.md. Exit codes: 0 held, 1 violation (VIOLATION line), 2 harness error.",
    }
    json.dump(m, open("MANIFEST.json", "w"), indent=1, sort_keys=False)
    print("MANIFEST.json written: %d checks, %d not_applicable" % (len(checks), len(na)))

if __name__ == "__main__":
    import sys
    # PENDING entries are passed by editing this file.
    main()
