#!/usr/bin/env python3
"""Confirms a sub-agent's seeded change (demo fails with / passes without the
change, baseline still passes with it) and files it under /verif/seeded/<id>/.

  tools/ingest_seeded.py <out_dir> <id> <property> "<needs>"
"""
import json
import os
import shutil
import subprocess
import sys
import tempfile

PY = "/venv/bin/python"


def main():
  src, sid, prop, needs = sys.argv[1:5]
  scratch = tempfile.mkdtemp(prefix="pc_ing_", dir="/dev/shm")
  meta = {"id": sid, "property": prop, "needs_to_manifest": needs,
          "origin": "independent sub-agent given only the property text and a "
                    "scratch worktree (plus the neutral pc_bootstrap import "
                    "helper); nothing from /verif"}
  try:
    files = subprocess.run(["git", "-C", "/repo", "ls-files"], check=True,
                           capture_output=True, text=True).stdout.split("\n")
    for f in files:
      if f:
        dst = os.path.join(scratch, f)
        os.makedirs(os.path.dirname(dst), exist_ok=True)
        shutil.copy2(os.path.join("/repo", f), dst)
    patch = os.path.join(src, "patch.diff")
    r = subprocess.run(["git", "apply", "--whitespace=nowarn", patch],
                       cwd=scratch, capture_output=True, text=True)
    if r.returncode:
      print("patch does not apply to current /repo:", r.stderr[:500])
      meta["applies_to_current_repo"] = False
      return 1
    demo = os.path.join(src, "demo.py")
    r1 = subprocess.run([PY, demo, scratch], cwd="/tmp", capture_output=True,
                        text=True, timeout=3600)
    r0 = subprocess.run([PY, demo, "/repo"], cwd="/tmp", capture_output=True,
                        text=True, timeout=3600)
    meta["demo_with_change"] = {"rc": r1.returncode,
                                "tail": (r1.stdout + r1.stderr).strip()[-300:]}
    meta["demo_without_change"] = {"rc": r0.returncode,
                                   "tail": (r0.stdout + r0.stderr).strip()[-300:]}
    rb = subprocess.run([PY, "-m", "pytest", "-q", "-p", "no:cacheprovider",
                         "--timeout=900", "--continue-on-collection-errors"],
                        cwd=scratch, capture_output=True, text=True,
                        timeout=3600)
    tail = rb.stdout.strip().split("\n")[-1]
    meta["baseline_with_change"] = tail
    ok = (r1.returncode != 0 and r0.returncode == 0 and "74 passed" in tail
          and "failed" not in tail)
    meta["confirmed"] = ok
    print(sid, "confirmed" if ok else "NOT CONFIRMED", "| demo with:",
          r1.returncode, "without:", r0.returncode, "| baseline:", tail)
    if ok:
      dst = os.path.join("/verif/seeded", sid)
      os.makedirs(dst, exist_ok=True)
      shutil.copy2(patch, os.path.join(dst, "patch.diff"))
      shutil.copy2(demo, os.path.join(dst, "demo.py"))
      if os.path.exists(os.path.join(src, "notes.md")):
        shutil.copy2(os.path.join(src, "notes.md"), os.path.join(dst, "notes.md"))
      meta["what_was_run"] = [
          "git apply patch.diff on a scratch copy of /repo",
          "%s demo.py <scratch> (must exit 1) and %s demo.py /repo (must exit 0)" % (PY, PY),
          "baseline: %s -m pytest -q -p no:cacheprovider --timeout=900 --continue-on-collection-errors in the scratch copy" % PY,
      ]
      with open(os.path.join(dst, "meta.json"), "w") as fh:
        json.dump(meta, fh, indent=1)
    return 0 if ok else 1
  finally:
    shutil.rmtree(scratch, ignore_errors=True)


if __name__ == "__main__":
  sys.exit(main())
