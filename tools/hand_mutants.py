#!/usr/bin/env python3
"""Sensitivity sweep with hand-written mutants (DESIGN 4 'mutants it must catch').

Each mutant is a textual replacement applied to a scratch copy of /repo under
/dev/shm (never to /repo); the property's quick check is run with --repo and
the mutant counts as killed iff the check exits 1 with a VIOLATION line.

  tools/hand_mutants.py [--only ID[,ID...]] [--prop Cxx] [--list] [--jobs N]
Results are appended to /verif/mutants/results.jsonl.
"""
import argparse
import json
import os
import shutil
import subprocess
import sys
import tempfile
import time

PY = "/venv/bin/python"
L = "paranoid_crypto/lib/"
R = L + "randomness_tests/"

MUTANTS = [
    # ---- C16 -----------------------------------------------------------------
    ("c16-or-to-assign", "C16", L + "util.py",
     "old_test_result.result |= test_result.result  # update",
     "old_test_result.result = test_result.result  # update"),
    ("c16-max-to-assign", "C16", L + "util.py",
     "old_test_result.severity = max(old_test_result.severity,\n                                   test_result.severity)",
     "old_test_result.severity = test_result.severity"),
    ("c16-always-append", "C16", L + "util.py",
     "  old_test_result = GetTestResult(test_info, test_result.test_name)\n  if old_test_result:",
     "  old_test_result = None\n  if old_test_result:"),
    ("c16-weak-not-set", "C16", L + "util.py",
     "    test_info.weak = True\n", "    pass\n"),
    ("c16-weak-follows-last", "C16", L + "util.py",
     "  if test_result.result:\n    # When a key/signature",
     "  test_info.weak = test_result.result\n  if False:\n    # When a key/signature"),
    ("c16-version-overwrite", "C16", L + "util.py",
     "  if not test_info.paranoid_lib_version:", "  if True:"),
    ("c16-version-never", "C16", L + "util.py",
     "  if not test_info.paranoid_lib_version:", "  if False:"),
    ("c16-factors-no-union", "C16", L + "util.py",
     "  if old_set:\n    factors = factors.union(old_set)  # update",
     "  if False:\n    factors = factors.union(old_set)  # update"),
    ("c16-anyweak-assign", "C16", L + "paranoid.py",
     "    any_weak |= res", "    any_weak = res"),
    ("c16-highest-is-lowest", "C16", L + "util.py",
     "    if test_result.result and test_result.severity > highest_severity:",
     "    if test_result.result and (highest_severity == -1 or test_result.severity < highest_severity):"),
    ("c16-issuer-first-key", "C16", L + "ecdsa_sig_checks.py",
     "      if key.test_info.weak:\n        logging.warning(\"Weak issuer public key: %s\", key)",
     "      if pks_pb[0].test_info.weak:\n        logging.warning(\"Weak issuer public key: %s\", key)"),
    ("c16-getter-stale-all", "C16", L + "paranoid.py",
     "    checks = dict(GetRSASingleChecks())\n    checks.update(GetRSAAggregateChecks())",
     "    checks = dict(GetRSASingleChecks())\n    if len(_check_factory) > 3:\n      checks.update(GetRSAAggregateChecks())"),
    ("c16-severity-const", "C16", L + "base_check.py",
     "        severity=self.severity, test_name=self.check_name, result=False)",
     "        severity=paranoid_pb2.SeverityType.SEVERITY_CRITICAL, test_name=self.check_name, result=False)"),
    ("c16-attachinfo-append", "C16", L + "util.py",
     "  if old_attached_info:\n    old_attached_info.value = value  # update\n  else:",
     "  if False:\n    old_attached_info.value = value  # update\n  else:"),
    # ---- C17 -----------------------------------------------------------------
    ("c17-result-outside-loop", "C17", L + "rsa_single_checks.py",
     "    any_weak = False\n    for key in artifacts:\n      test_result = self._CreateTestResult()\n      e = gmpy.mpz(util.Bytes2Int(key.rsa_info.e))",
     "    any_weak = False\n    test_result = self._CreateTestResult()\n    for key in artifacts:\n      e = gmpy.mpz(util.Bytes2Int(key.rsa_info.e))"),
    # c17-table-step-from-cache (t derived from the cached table size) was
    # dropped: it is an equivalent mutant (a step derived from the table that
    # is actually used still covers every x below the bound).
    ("c17-rebuild-only-if-empty", "C17", L + "ec_util.py",
     "    if max_diff > self._table_size:", "    if not self._table_size:"),
    ("c17-fermat-state-on-singleton", "C17", L + "rsa_single_checks.py",
     "      factors = rsa_util.FermatFactor(n, self._max_steps)\n",
     "      factors = rsa_util.FermatFactor(n, self._max_steps)\n      self._max_steps = max(1, self._max_steps // 2)\n"),
    ("c17-gcd-by-position", "C17", L + "rsa_util.py",
     "  return [gcds_dict[v] for v in values]",
     "  return [gcds_dict[v] for v in sorted(values)]"),
    ("c17-partition-drops-last", "C17", L + "ec_single_checks.py",
     "      keys = [key for key in artifacts if key.ec_info.curve_type == curve_id]\n      if not keys:\n        continue\n      points",
     "      keys = [key for key in artifacts if key.ec_info.curve_type == curve_id]\n      if len(keys) > 3:\n        keys = keys[:-1]\n      if not keys:\n        continue\n      points"),
    # ---- C07 -----------------------------------------------------------------
    ("c07-cf-bound", "C07", L + "rsa_single_checks.py",
     "bound: Optional[int] = 2**48", "bound: Optional[int] = 2**9"),
    ("c07-gcdn1-bound", "C07", L + "rsa_aggregate_checks.py",
     "gcd_bound: int = 2**128", "gcd_bound: int = 2**2"),
    ("c07-sizes-threshold", "C07", L + "rsa_single_checks.py",
     "weak = gmpy.bit_length(n) < 2048", "weak = gmpy.bit_length(n) <= 2048"),
    ("c07-weakcurve-threshold", "C07", L + "ec_single_checks.py",
     "minimal_bit_length = 224", "minimal_bit_length = 225"),
    ("c07-issuerdlogs-no-match", "C07", L + "ecdsa_sig_checks.py",
     "    if guess_pk in pks:\n      for idx in pks[guess_pk]:\n        issuer_dlogs[idx] = guesses[i]",
     "    for pk in pks:\n      for idx in pks[pk]:\n        issuer_dlogs[idx] = guesses[i]"),
    ("c07-pm1-gate", "C07", L + "rsa_util.py",
     "  if gmpy.gcd(n - 1, m) >= gcd_bound:\n    a = pow(2, n - 1, n)\n    p = gmpy.gcd(pow(a, m, n) - 1, n)\n    if 1 < p < n:\n      return True, [p, n // p]\n    if p == n:\n      return True, []",
     "  if gmpy.gcd(n - 1, m) >= 2:\n    return True, []"),
    # ---- C18 -----------------------------------------------------------------
    ("c18-biased-no-empty-guard", "C18", L + "ecdsa_sig_checks.py",
     "      sigs = [s for s in artifacts if s.issuer_key_info.curve_type == curve_id]\n      if not sigs:\n        continue\n      pks = _MapIssuerSigIndexes(sigs)\n      guesses = set()\n      for _, idxs in pks.items():\n        # Exclude duplicate signatures from the actual processing\n        unique_vals = list({\n            ec_util.ECDSAValues(sigs[idx].ecdsa_sig_info, curve) for idx in idxs\n        })\n        # Sliding window.",
     "      sigs = [s for s in artifacts if s.issuer_key_info.curve_type == curve_id]\n      pks = _MapIssuerSigIndexes(sigs)\n      guesses = set()\n      unique_vals = []\n      for _, idxs in pks.items():\n        # Exclude duplicate signatures from the actual processing\n        unique_vals = list({\n            ec_util.ECDSAValues(sigs[idx].ecdsa_sig_info, curve) for idx in idxs\n        })\n        # Sliding window."),
    ("c18-validkey-unknown-curve", "C18", L + "ec_single_checks.py",
     "      curve = ec_util.CURVE_FACTORY.get(key.ec_info.curve_type, None)\n      if curve is None:\n        logging.warning(\"Unknown curve: %s\", key.ec_info)",
     "      curve = ec_util.CURVE_FACTORY[key.ec_info.curve_type]\n      if curve is None:\n        logging.warning(\"Unknown curve: %s\", key.ec_info)"),
    ("c18-diff-guard-dropped", "C18", L + "ec_util.py",
     "    if not points or len(points) + len(other_points) < 2:\n      return res",
     "    if False:\n      return res"),
    ("c18-highlow-size-gate", "C18", L + "rsa_util.py",
     "  if n % 8 != 1:\n    return None\n  # Computes a square root r0 modulo 2**k",
     "  # Computes a square root r0 modulo 2**k"),
    ("c18-keypair-shift", "C18", L + "rsa_single_checks.py",
     "      n_msb = n >> (n.bit_length() - 64)",
     "      n_msb = n >> (n.bit_length() - 65)"),
    ("c18-smallupper-gate", "C18", L + "rsa_util.py",
     "  if prime_size < 384:\n    return None",
     "  if prime_size < 3:\n    return None"),
    # ---- C10 -----------------------------------------------------------------
    ("c10-giant-steps-1", "C10", L + "ec_util.py",
     "    giant_steps = 2 + n // t", "    giant_steps = 1 + n // t"),
    ("c10-step-2ts", "C10", L + "ec_util.py",
     "    t = 2 * table_size - 1\n", "    t = 2 * table_size\n"),
    ("c10-pointtable-r", "C10", L + "ec_util.py",
     "    r = (n + m - 1) // m", "    r = n // m"),
    ("c10-multiplier-range", "C10", L + "ec_util.py",
     "    for j in range(2, quad_words + 1):", "    for j in range(2, quad_words):"),
    ("c10-diff-index", "C10", L + "ec_util.py",
     "              if j >= len(other_points):\n                key2 = j - len(other_points)",
     "              if j > len(other_points):\n                key2 = j - len(other_points)"),
    ("c10-dup-skip", "C10", L + "ec_util.py",
     "        if x is None:\n          continue  # key is a duplicate",
     "        if x is None and False:\n          continue  # key is a duplicate"),
    ("c10-table-size-after", "C10", L + "ec_util.py",
     "    if table_size > self._table_size:",
     "    if table_size > self._table_size + 1:"),
    ("c10-sign-lost", "C10", L + "ec_util.py",
     "              elif y[1] == -p[1] % self.mod:\n                res[i] = -dl",
     "              elif y[1] == -p[1] % self.mod:\n                res[i] = dl"),
    # ---- C13 -----------------------------------------------------------------
    ("c13-fail-le", "C13", R + "random_test_suite.py",
     "      if pval < self.p_value_fail:", "      if pval <= self.p_value_fail:"),
    ("c13-repeat-le", "C13", R + "random_test_suite.py",
     "        if repeat_prob < pval:", "        if repeat_prob <= pval:"),
    ("c13-finished-or", "C13", R + "random_test_suite.py",
     "    self.finished = undecided == 0 and self.runs >= self.min_repetitions",
     "    self.finished = undecided == 0 or self.runs >= self.min_repetitions"),
    ("c13-minrep-ignored", "C13", R + "random_test_suite.py",
     "    self.finished = undecided == 0 and self.runs >= self.min_repetitions",
     "    self.finished = undecided == 0"),
    ("c13-any-all", "C13", R + "random_test_suite.py",
     "  LogTotal(tests)\n  if log_level >= 1:\n    logging.info(\"total time: %4.2fs\", time.time() - start_total)\n  return any(test.Failed() for test in tests)\n\n\ndef TestBitString",
     "  LogTotal(tests)\n  if log_level >= 1:\n    logging.info(\"total time: %4.2fs\", time.time() - start_total)\n  return all(test.Failed() for test in tests)\n\n\ndef TestBitString"),
    ("c13-bitstring-level", "C13", R + "random_test_suite.py",
     "          TestStructure(test, params, significance_level, significance_level))",
     "          TestStructure(test, params, significance_level, 0.01))"),
    ("c13-zero-shortcut", "C13", R + "util.py",
     "  elif min(pvalues) == 0:\n    return 0\n", "  elif False:\n    return 0\n"),
    ("c13-igamc-dof", "C13", R + "util.py",
     "    return Igamc(len(pvalues), s)", "    return Igamc(len(pvalues) - 1, s)"),
    ("c13-source-per-test", "C13", R + "random_test_suite.py",
     "      if test_struct.finished:\n        continue\n      if test_struct.Run(bits, n):",
     "      if test_struct.finished:\n        continue\n      bits = source(n)\n      if test_struct.Run(bits, n):"),
    ("c13-finished-rerun", "C13", R + "random_test_suite.py",
     "      if test_struct.finished:\n        continue\n      if test_struct.Run(bits, n):",
     "      if test_struct.Run(bits, n):"),
    ("c13-failed-sticky", "C13", R + "random_test_suite.py",
     "      if pval < self.p_value_fail:\n        self.state[name] = State.FAILED",
     "      if pval < self.p_value_fail or self.state.get(name) == State.FAILED:\n        self.state[name] = State.FAILED"),
    ("c13-insufficient-not-finished", "C13", R + "random_test_suite.py",
     "      self.finished = True\n      return True", "      return True"),
    # ---- C20 -----------------------------------------------------------------
    ("c20-xorshift-mask", "C20", R + "rng.py",
     "    ba = bytearray().join(z.to_bytes(8, \"little\") for z in blocks)\n    res = int.from_bytes(ba, \"little\")\n    if n % 64 != 0:\n      res &= (1 << n) - 1\n    return res\n\n\nclass XorShiftStar",
     "    ba = bytearray().join(z.to_bytes(8, \"little\") for z in blocks)\n    res = int.from_bytes(ba, \"little\")\n    if n % 8 != 0:\n      res &= (1 << n) - 1\n    return res\n\n\nclass XorShiftStar"),
    ("c20-shake-shift", "C20", R + "rng.py",
     "    seq = int.from_bytes(shake.digest((n + 7) // 8), \"little\")  # pylint: disable=too-many-function-args\n    if n % 8 != 0:\n      seq >>= -n % 8",
     "    seq = int.from_bytes(shake.digest((n + 7) // 8), \"little\")  # pylint: disable=too-many-function-args\n    if n % 8 != 0:\n      seq >>= n % 8"),
    ("c20-mwc-state-kept", "C20", R + "rng.py",
     "    else:\n      y = seed\n    ba = bytearray()\n    chunk_size = self.output_bits // 8",
     "    else:\n      y = seed + getattr(self, \"_calls\", 0)\n      self._calls = getattr(self, \"_calls\", 0) + (n > 4096)\n    ba = bytearray()\n    chunk_size = self.output_bits // 8"),
    ("c20-java-byte-order", "C20", R + "rng.py",
     "      ba[4 * j : 4 * (j + 1)] = output.to_bytes(4, \"little\")",
     "      ba[4 * j : 4 * (j + 1)] = output.to_bytes(4, \"big\")"),
    ("c20-lcgnist-mask", "C20", R + "rng.py",
     "    if n % 8:\n      res[-1] &= (1 << (n % 8)) - 1\n    return int.from_bytes(res, \"little\")",
     "    if n % 8:\n      res[0] &= (1 << (n % 8)) - 1\n    return int.from_bytes(res, \"little\")"),
    ("c20-xorwow-seed-truthy", "C20", R + "rng.py",
     "      seed, state = divmod(seed, 2**160)\n      ctr = seed % 2**32",
     "      seed, state = divmod(seed, 2**160)\n      ctr = seed % 2**32 if seed else int.from_bytes(os.urandom(4), \"little\")"),
    ("c20-trunclcg-multiplier", "C20", R + "rng.py",
     "        64: 2862933555777941757,", "        64: 2862933555777941759,"),
    ("c20-lehmer-global-random", "C20", R + "rng.py",
     "    state = seed\n    ba = bytearray()\n    while 8 * len(ba) < n:",
     "    state = seed ^ (random.getrandbits(1) if n > 1900 else 0)\n    ba = bytearray()\n    while 8 * len(ba) < n:"),
]


def copy_repo(dst):
  files = subprocess.run(["git", "-C", "/repo", "ls-files"], check=True,
                         capture_output=True, text=True).stdout.split("\n")
  for f in files:
    if f:
      d = os.path.join(dst, f)
      os.makedirs(os.path.dirname(d), exist_ok=True)
      shutil.copy2(os.path.join("/repo", f), d)


def run_one(m, tier, extra):
  mid, prop, path, old, new = m
  scratch = tempfile.mkdtemp(prefix="pc_hm_", dir="/dev/shm")
  t0 = time.time()
  try:
    copy_repo(scratch)
    fp = os.path.join(scratch, path)
    with open(fp) as fh:
      text = fh.read()
    if text.count(old) != 1:
      return {"id": mid, "property": prop, "status": "PATTERN-%d" %
              text.count(old)}
    with open(fp, "w") as fh:
      fh.write(text.replace(old, new))
    comp = subprocess.run([PY, "-m", "py_compile", fp], capture_output=True)
    if comp.returncode:
      return {"id": mid, "property": prop, "status": "DOES-NOT-COMPILE"}
    cmd = [PY, "-m", "dst.cli", "check", prop, "--tier", tier, "--repo",
           scratch, "--no-evidence", "--no-minimise", "--fail-fast"] + extra
    r = subprocess.run(cmd, cwd="/verif", capture_output=True, text=True,
                       timeout=7200)
    vio = [l for l in r.stdout.split("\n") if l.startswith("violation:")]
    return {"id": mid, "property": prop, "rc": r.returncode,
            "status": {0: "MISSED", 1: "KILLED"}.get(r.returncode, "HARNESS"),
            "first": vio[0][:200] if vio else "", "classes": len(vio),
            "wall": round(time.time() - t0, 1)}
  finally:
    shutil.rmtree(scratch, ignore_errors=True)


def main():
  ap = argparse.ArgumentParser()
  ap.add_argument("--only")
  ap.add_argument("--prop")
  ap.add_argument("--list", action="store_true")
  ap.add_argument("--tier", default="quick")
  ap.add_argument("extra", nargs="*")
  args = ap.parse_args()
  sel = MUTANTS
  if args.only:
    ids = set(args.only.split(","))
    sel = [m for m in sel if m[0] in ids]
  if args.prop:
    sel = [m for m in sel if m[1] == args.prop]
  if args.list:
    for m in sel:
      print(m[0], m[1], m[2])
    return 0
  os.makedirs("/verif/mutants", exist_ok=True)
  for m in sel:
    res = run_one(m, args.tier, args.extra)
    print(json.dumps(res))
    sys.stdout.flush()
    with open("/verif/mutants/results.jsonl", "a") as fh:
      fh.write(json.dumps(res) + "\n")
  return 0


if __name__ == "__main__":
  sys.exit(main())
