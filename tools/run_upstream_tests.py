#!/usr/bin/env python3
"""Runs upstream test modules that the pinned baseline cannot collect (missing
generated modules) through the overlay.  Used only to sanity-check `fix:`
commits; not part of any registered check.

  tools/run_upstream_tests.py [--repo PATH] module [module ...]
e.g. paranoid_crypto.lib.ec_util_test paranoid_crypto.lib.paranoid_ec_test
"""
import sys
import unittest

sys.path.insert(0, "/verif")


def main():
  args = sys.argv[1:]
  repo = "/repo"
  if args and args[0] == "--repo":
    repo = args[1]
    args = args[2:]
  from dst import overlay
  overlay.bootstrap(repo)
  from absl import flags
  flags.FLAGS(["x"])
  suite = unittest.TestSuite()
  for m in args:
    suite.addTests(unittest.defaultTestLoader.loadTestsFromName(m))
  res = unittest.TextTestRunner(verbosity=1).run(suite)
  return 0 if res.wasSuccessful() else 1


if __name__ == "__main__":
  sys.exit(main())
