#!/usr/bin/env python3
"""Runs a check (and optionally a demo script / the baseline tests) against a
scratch copy of /repo with a patch applied.  The copy lives under /dev/shm and
is removed afterwards; /repo itself is never modified.

  tools/mutant.py --patch P --prop C20 [--runs N] [--tier quick] [--demo D] [--baseline]
                  [-- extra args for dst.cli check]
"""
import argparse
import os
import shutil
import subprocess
import sys
import tempfile

PY = "/venv/bin/python"


def main():
  ap = argparse.ArgumentParser()
  ap.add_argument("--patch", required=True)
  ap.add_argument("--prop", action="append", default=[])
  ap.add_argument("--runs", type=int)
  ap.add_argument("--tier", default="quick")
  ap.add_argument("--demo")
  ap.add_argument("--baseline", action="store_true")
  ap.add_argument("--keep", action="store_true")
  ap.add_argument("--seed", default="0")
  ap.add_argument("extra", nargs="*")
  args = ap.parse_args()
  scratch = tempfile.mkdtemp(prefix="pc_mut_", dir="/dev/shm")
  rc_all = {}
  try:
    files = subprocess.run(["git", "-C", "/repo", "ls-files"], check=True,
                           capture_output=True, text=True).stdout.split("\n")
    for f in files:
      if not f:
        continue
      dst = os.path.join(scratch, f)
      os.makedirs(os.path.dirname(dst), exist_ok=True)
      shutil.copy2(os.path.join("/repo", f), dst)
    ap_res = subprocess.run(["git", "apply", "--whitespace=nowarn",
                             os.path.abspath(args.patch)], cwd=scratch,
                            capture_output=True, text=True)
    if ap_res.returncode != 0:
      ap_res = subprocess.run(["patch", "-p1", "-i", os.path.abspath(args.patch)],
                              cwd=scratch, capture_output=True, text=True)
      if ap_res.returncode != 0:
        print("PATCH DOES NOT APPLY:\n" + ap_res.stdout + ap_res.stderr)
        return 3
    if args.demo:
      r = subprocess.run([PY, os.path.abspath(args.demo), scratch], cwd="/tmp",
                         capture_output=True, text=True, timeout=1800)
      print("demo on mutant: rc=%d %s" % (r.returncode, (r.stdout + r.stderr).strip()[-300:]))
      rc_all["demo_mutant"] = r.returncode
      r = subprocess.run([PY, os.path.abspath(args.demo), "/repo"], cwd="/tmp",
                         capture_output=True, text=True, timeout=1800)
      print("demo on /repo : rc=%d %s" % (r.returncode, (r.stdout + r.stderr).strip()[-300:]))
      rc_all["demo_repo"] = r.returncode
    if args.baseline:
      r = subprocess.run([PY, "-m", "pytest", "-q", "-p", "no:cacheprovider",
                          "--timeout=900", "--continue-on-collection-errors",
                          "-x", "-q"], cwd=scratch, capture_output=True,
                         text=True, timeout=3600)
      tail = r.stdout.strip().split("\n")[-1]
      print("baseline on mutant: %s" % tail)
      rc_all["baseline"] = tail
    for prop in args.prop:
      cmd = [PY, "-m", "dst.cli", "check", prop, "--tier", args.tier,
             "--repo", scratch, "--no-evidence"] + args.extra
      if args.runs is not None:
        cmd += ["--runs", str(args.runs)]
      env = dict(os.environ, VERIF_SEED=args.seed)
      r = subprocess.run(cmd, cwd="/verif", capture_output=True, text=True,
                         env=env, timeout=7200)
      lines = [l for l in r.stdout.split("\n") if l.startswith(
          ("VIOLATION", "violation:", "dst:", "HARNESS", "KNOWN-FINDING: property"))]
      print("check %s on mutant: rc=%d" % (prop, r.returncode))
      for l in lines[:12]:
        print("   " + l[:260])
      if r.returncode not in (0, 1):
        print(r.stdout[-2000:], r.stderr[-2000:])
      rc_all[prop] = r.returncode
  finally:
    if not args.keep:
      shutil.rmtree(scratch, ignore_errors=True)
  return 0


if __name__ == "__main__":
  sys.exit(main())
