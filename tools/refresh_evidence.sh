#!/bin/bash
# Runs every registered quick check against /repo and rewrites evidence/*.json.
# Usage: tools/refresh_evidence.sh [tier]
cd /verif
tier=${1:-quick}
rc=0
for p in C20 C13 C10 C16 C17 C07 C18; do
  echo "=== $p ($tier)"
  /venv/bin/python -m dst.cli check $p --tier $tier 2>&1 | grep -v "^ALSO" | cut -c1-240 | tail -6
  r=${PIPESTATUS[0]}
  [ "$r" != "0" ] && rc=$r
done
python3-vt - <<'PY'
import json, jsonschema, glob
sch = json.load(open('/root/.vp/EVIDENCE.schema.json'))
for f in sorted(glob.glob('/verif/evidence/*.json')):
    d = json.load(open(f)); jsonschema.validate(d, sch)
    c = d['coverage']
    print(f.split('/')[-1], d['tier'], 'evals', c['evaluations'], 'distinct', c['distinct_nontrivial'], 'wall', d['wall_s'], 'viol', d['violations'])
PY
exit $rc
