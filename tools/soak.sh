#!/bin/bash
# Soak: every quick check on the unchanged tree for a range of VERIF_SEED values.
# Any line starting with VIOLATION or a non-zero exit is a false alarm to investigate.
# Usage: tools/soak.sh <first_seed> <last_seed> [tier]
tier=${3:-quick}
for s in $(seq $1 $2); do
  for p in C20 C13 C10 C16 C17 C07 C18; do
    out=$(VERIF_SEED=$s /venv/bin/python -m dst.cli check $p --tier $tier --no-evidence 2>&1)
    rc=$?
    echo "seed=$s $p rc=$rc $(echo "$out" | grep '^dst: property' | tail -1 | cut -c1-160)"
    if [ $rc -ne 0 ]; then echo "$out" | grep -E "^violation|^VIOLATION|HARNESS" | cut -c1-400; fi
  done
done
