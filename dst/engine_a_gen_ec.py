"""Engine A generation: EC-key and ECDSA-signature profiles."""

import math
import random

from dst import artifacts as A
from dst import engine_a_gen as G

# relative weights: cheap 224/256-bit curves carry the volume
EC_CURVE_WEIGHTS = [("secp256r1", 4), ("secp256k1", 3), ("secp224r1", 3),
                    ("brainpoolP256r1", 2), ("secp384r1", 1),
                    ("brainpoolP384r1", 1), ("secp521r1", 1),
                    ("brainpoolP512r1", 1)]
SIG_CURVE_WEIGHTS = [("secp224r1", 4), ("secp256k1", 2), ("secp256r1", 3),
                     ("brainpoolP256r1", 3), ("secp521r1", 1),
                     ("secp384r1", 1), ("brainpoolP384r1", 1)]


def _pick_curve(r, weights, exclude=()):
  names = [n for n, w in weights for _ in range(w) if n not in exclude]
  return A.curve_by_name(r.choice(names))


def spec_multipliers(c):
  """Multipliers m such that v*m (0 < v < 2^32) is one of the weak forms of
  the *statement*: a 32-bit value shifted by a multiple of 8 bits (any shift
  for which the key stays below the group order for some v), or a 32-bit word
  repeated two or more times."""
  out = []
  j = 0
  while (1 << j) < int(c.n):
    out.append((1 << j, "shift%d" % j))
    j += 8
  for k in range(2, c.bits // 32 + 1):
    out.append((sum(1 << (32 * i) for i in range(k)), "repeat%d" % k))
  return out


def lib_table_params(c, k):
  """Table size / giant step the documented algorithm uses for k keys."""
  m = len(A.weak_multipliers(c))
  ts = int(math.sqrt((2**32) * m * k))
  return ts, 2 * ts - 1


def ec_weak_priv_spec(r, c, k_first=None):
  """A structured private key chosen from the statement's forms, biased to
  table / giant-step boundaries of the documented algorithm."""
  mults = spec_multipliers(c)
  m, desc = mults[r.randrange(len(mults))]
  u = r.random()
  vmax = min(2**32 - 1, (int(c.n) - 1) // m)
  if k_first and u < 0.35:
    # the top of the 32-bit range: the last giant step of the documented
    # algorithm (whether it is needed depends on the list length)
    ts, t = lib_table_params(c, k_first)
    v = 2**32 - 1 - r.randrange(0, max(2, ts // 2))
    edge = "j=top,ts=%d" % ts
  elif k_first and u < 0.65:
    ts, t = lib_table_params(c, k_first)
    jmax = (2**32) // t
    j = r.choice([0, 1, 2, jmax - 1, jmax, jmax + 1, r.randint(0, jmax)])
    off = r.choice([0, 1, -1, ts - 1, ts, ts + 1, -(ts - 1), -ts, t - 1,
                    r.randint(0, ts)])
    v = j * t + off
    edge = "j=%d,off=%d,ts=%d" % (j, off, ts)
  elif u < 0.78:
    v = r.choice([1, 2, 3, 2**16, 2**31, 2**32 - 1, 2**32 - 2, 0xFFFF0000,
                  0x01234567])
    edge = "const"
  else:
    v = r.randrange(1, 2**32)
    edge = "uniform"
  v = max(1, min(v, vmax))
  d = v * m
  a = A.ec_from_priv(c, d, "weak_priv:" + desc, v=v, mult=A.i2h(m), edge=edge,
                     expect=["CheckWeakECPrivateKey"], pad=r.random() < 0.3)
  return a


# ----------------------------------------------------------------------------
# EC keys
# ----------------------------------------------------------------------------


def _ec_pool(r, f, focus, max_diff):
  c1 = _pick_curve(r, EC_CURVE_WEIGHTS)
  curves = [c1]
  if r.random() < 0.5:
    siblings = [c.name for c in A.curves().values()
                if c.bits == c1.bits and c.name != c1.name and
                c.name in A.STRONG_CURVE_NAMES]
    if siblings and r.random() < 0.5:
      # curves of the same size share everything that is keyed by bit length
      curves.append(A.curve_by_name(r.choice(siblings)))
    else:
      curves.append(_pick_curve(r, EC_CURVE_WEIGHTS, exclude=(c1.name,)))
    if r.random() < 0.5:
      curves.reverse()
      c1 = curves[0]
  pool = []
  k_first = r.choice([1, 1, 2, 3])
  for _ in range(r.randint(*f["healthy"])):
    pool.append(A.ec_healthy(r, r.choice(curves)))
  fams = ["weak_priv", "weak_priv", "small_diff", "small_diff_chain",
          "far_diff", "duplicate", "duplicate_enc",
          "negated", "invalid", "relabelled", "unknown_curve", "weak_curve",
          "overshoot", "binary_curve"]
  lo = 0 if focus == "C18" else 1
  enabled = set(r.sample(fams, r.randint(lo, 5)))
  if focus == "C10":
    enabled |= {"weak_priv", "small_diff"}
  if focus == "C17" and r.random() < 0.6:
    enabled |= {"weak_priv"}
  pair_id = 0
  if "weak_priv" in enabled:
    # on every curve of the pool, or on one only (then a mixed-curve batch has
    # exactly one curve partition with a positive verdict)
    on = list(curves) if r.random() < 0.5 else [r.choice(curves)]
    for c in on:
      pool.append(ec_weak_priv_spec(r, c, k_first))
    for _ in range(r.randint(0, 2)):
      pool.append(ec_weak_priv_spec(r, r.choice(on), k_first))
  if "weak_priv" in enabled and r.random() < 0.35:
    # the same structured key twice (two certificates / another encoding):
    # every copy must be flagged with its private key
    src = next(a for a in pool if a["fam"].startswith("weak_priv"))
    cpy = dict(src)
    cpy["truth"] = dict(src["truth"], copy_of="weak_priv")
    if r.random() < 0.5:
      ln = (int(A.curves()[src["curve"]].p.bit_length()) + 7) // 8 + 1
      cpy["x"] = A.i2h(int(src["x"], 16), ln)
      cpy["y"] = A.i2h(int(src["y"], 16), ln)
    pool.append(cpy)
  if "overshoot" in enabled and r.random() < 0.5:
    pool.append(A.ec_overshoot(r, c1))
  if "small_diff" in enabled:
    for _ in range(r.randint(1, 2)):
      pair = A.ec_small_diff_pair(r, r.choice(curves), max_diff, inside=True)
      for a in pair:
        a["truth"]["pair"] = pair_id
      pair_id += 1
      pool += pair
  if "small_diff_chain" in enabled:
    chain = A.ec_small_diff_chain(r, r.choice(curves), max_diff)
    for a in chain:
      a["truth"]["pair"] = pair_id
    pair_id += 1
    pool += chain
  if "duplicate_enc" in enabled:
    # the same point in two different byte encodings (fixed width with leading
    # zeros vs minimal): equal keys, unequal protobufs
    base = A.ec_healthy(r, c1)
    ln = (int(c1.p.bit_length()) + 7) // 8 + r.choice([1, 2])
    dup = dict(base)
    dup["x"] = A.i2h(int(base["x"], 16), ln)
    dup["y"] = A.i2h(int(base["y"], 16), ln)
    base["fam"] = dup["fam"] = "duplicate"
    dup["truth"] = dict(base["truth"], encoding="padded")
    pool += [base, dup]
  if "far_diff" in enabled:
    pair = A.ec_small_diff_pair(r, c1, max_diff, inside=False)
    for a in pair:
      a["truth"]["pair"] = pair_id
      a["healthy"] = False
    pair_id += 1
    pool += pair
  if "duplicate" in enabled:
    base = A.ec_healthy(r, c1)
    base["healthy"] = True
    dup = dict(base)
    base["fam"] = dup["fam"] = "duplicate"
    pool += [base, dup]
  if "negated" in enabled:
    base = A.ec_healthy(r, c1)
    neg = A.ec_art(c1.cid, int(base["x"], 16),
                   (-int(base["y"], 16)) % int(c1.p), "healthy", healthy=True,
                   d=(int(c1.n) - int(base["d"], 16)))
    base["fam"] = neg["fam"] = "negated_pair"
    pool += [base, neg]
  if "invalid" in enabled or r.random() < f["degenerate"]:
    for kind in r.sample(A.EC_INVALID_KINDS, r.randint(1, 3)):
      pool.append(A.ec_invalid(r, r.choice(curves), kind))
      if kind in ("x_plus_p", "y_plus_p") and r.random() < 0.6:
        # the canonical twin of the same point, in the same pool
        b = pool[-1]["truth"]["base"]
        twin = A.ec_art(pool[-1]["curve"], int(b[0] or "0", 16),
                        int(b[1] or "0", 16), "twin_of_noncanonical",
                        healthy=False)
        pool.append(twin)
  if "relabelled" in enabled and pool:
    src = r.choice(pool)
    others = [cid for cid in sorted(A.curves()) if cid != src["curve"]]
    pool.append(A.ec_relabel(src, r.choice(others + A.binary_curve_ids()[:2]
                                           + [0])))
  if "unknown_curve" in enabled:
    src = A.ec_healthy(r, c1)
    src.update(curve=r.choice([0, 0, 99, 20, 2**31 - 1]), fam="unknown_curve",
               healthy=False, d=None)
    pool.append(src)
  if "binary_curve" in enabled:
    cid = r.choice(A.binary_curve_ids())
    pool.append(A.ec_art(cid, r.getrandbits(233), r.getrandbits(233),
                         "binary_curve"))
  if "weak_curve" in enabled:
    c192 = A.curve_by_name("secp192r1")
    if r.random() < 0.5:
      a = A.ec_healthy(r, c192)
      a.update(fam="weak_curve", healthy=False)
    else:
      # weak for two independent reasons: the curve and the private key
      a = ec_weak_priv_spec(r, c192)
    pool.append(a)
  if not pool:
    pool.append(A.ec_healthy(r, c1))
  r.shuffle(pool)
  return pool, curves, k_first


def _curve_count(pool, batch):
  return len({pool[j]["curve"] for j in batch
              if pool[j]["curve"] in A.curves()})


def gen_ec(r, tier, f, focus):
  max_diff = 2 ** r.randint(8, 16)
  pool, curves, k_first = _ec_pool(r, f, focus, max_diff)
  singles, aggs = G.active_names("ec")
  names = singles + aggs
  n = len(pool)
  knobs = {"clock_seed": r.getrandbits(32), "max_diff": max_diff,
           "denylist": {}}
  ops = []
  initial = {}
  if r.random() < f["preann"]:
    for j in r.sample(range(n), r.randint(1, min(3, n))):
      initial[str(j)] = G.rand_annotation(r, "ec", names, pool[j])
  for j in range(n):
    # a key that an earlier pipeline stage already marked weak for another
    # reason must still get its own verdict from every check
    if pool[j]["fam"].startswith(("weak_priv", "small_diff")) and \
        str(j) not in initial and r.random() < 0.2:
      initial[str(j)] = {"weak": True, "ver": "1.0.0",
                         "entries": [["CheckFromAnEarlierStage", True, 2]],
                         "infos": []}
  length = r.randint(*f["hist"])
  # budget of "expensive units": one unit = one curve partition of
  # ExtendedBatchDL (about 2.2 s and 260 MB), counted twice per step
  budget = 5 if tier == "quick" else 9
  c1 = curves[0]
  on_c1 = [j for j in range(n) if pool[j]["curve"] == c1.cid]

  def small_batch():
    """<= 2 curves with tables, preferably k_first keys on the main curve."""
    cand = list(range(n))
    r.shuffle(cand)
    if len(curves) > 1 and r.random() < 0.5:
      # one key of each curve first: mixed-curve partitions
      firsts = []
      for c in curves:
        js = [j for j in cand if pool[j]["curve"] == c.cid]
        if js:
          firsts.append(js[0])
      cand = firsts + [j for j in cand if j not in firsts]
    batch, seen = [], set()
    for j in cand:
      cid = pool[j]["curve"]
      if cid in A.curves() and cid not in seen and len(seen) >= 2:
        continue
      if cid in A.curves():
        seen.add(cid)
      batch.append(j)
      if len(batch) >= r.randint(1, 6):
        break
    return batch

  def first_expensive_batch():
    weak = [j for j in on_c1 if pool[j]["fam"].startswith("weak_priv")]
    rest = [j for j in on_c1 if j not in weak]
    r.shuffle(weak)
    r.shuffle(rest)
    b = (weak + rest)[:k_first]
    if len(curves) > 1 and r.random() < 0.5:
      # a second curve partition without any structured key
      other = [j for j in range(n) if pool[j]["curve"] == curves[1].cid and
               not pool[j]["fam"].startswith("weak_priv")]
      b += other[:r.randint(1, 2)]
    others = [j for j in range(n) if pool[j]["curve"] not in A.curves()]
    b += r.sample(others, min(len(others), r.randint(0, 2)))
    r.shuffle(b)
    return b

  first_exp_done = False
  edge_alone_done = [False]

  def add_check():
    nonlocal budget, first_exp_done
    u = r.random()
    expensive = u < 0.40 and budget > 0
    if expensive:
      batch = small_batch() if first_exp_done else first_expensive_batch()
      units = max(1, _curve_count(pool, batch))
      if units > budget:
        expensive = False
      else:
        budget -= units
        first_exp_done = True
    if expensive and first_exp_done and budget >= 1 and not edge_alone_done[0]:
      # an edge-planted key once more, alone: another list length, hence other
      # table and giant-step sizes; the verdict must be the same
      edges = [j for j in range(n) if pool[j]["fam"].startswith("weak_priv")
               and pool[j]["truth"].get("edge", "").startswith("j=")]
      if edges and r.random() < 0.6:
        edge_alone_done[0] = True
        budget -= 1
        ops.append({"op": "check", "batch": [r.choice(edges)], "oracle": [],
                    "check": {"name": "CheckWeakECPrivateKey",
                              "how": "registry", "via": "all"}})
    if expensive:
      if r.random() < 0.55:
        op = {"op": "check_all", "batch": batch,
              "log_level": r.choice([0, 0, 1])}
      else:
        op = {"op": "check", "batch": batch,
              "check": {"name": "CheckWeakECPrivateKey",
                        "how": r.choice(["registry", "registry", "construct"]),
                        "via": r.choice(["all", "singles"]), "params": {},
                        "slot": r.randrange(2)}}
      # FRESH queries on expensive steps cost the same again: at most one
      p = f["oracle"] if budget >= units else 0.0
      items = G.oracle_items(r, batch, pool, "ec", True, p,
                             joint_extra=lambda j: _far_from_all(pool, j))
      op["oracle"] = items[:1]
      edge = [j for j in batch if pool[j]["fam"].startswith("weak_priv") and
              pool[j]["truth"].get("edge", "").startswith("j=")]
      if not op["oracle"] and edge and len(batch) > 1 and budget >= 1 and \
          r.random() < 0.5:
        # the same key alone: another list length, hence another table size
        op["oracle"] = [{"relation": "alone", "order": [edge[0]]}]
      if op["oracle"]:
        budget -= max(1, _curve_count(pool, op["oracle"][0]["order"]))
    else:
      name = r.choice(["CheckValidECKey", "CheckWeakCurve",
                       "CheckECKeySmallDifference",
                       "CheckECKeySmallDifference"])
      batch = G.sub_batch(r, n, 0 if r.random() < 0.1 else 1, 8)
      if focus == "C07" and r.random() < 0.4:
        batch = [j for j in range(n) if pool[j]["healthy"]]
      spec = {"name": name, "how": "registry",
              "via": r.choice(["all", "singles" if name != "CheckECKeySmall"
                               "Difference" else "aggregates"])}
      c07 = True
      if name == "CheckECKeySmallDifference" and r.random() < 0.4:
        md = 2 ** r.randint(6, 17)
        spec = {"name": name, "how": "construct", "params": {"max_diff": md},
                "slot": r.randrange(2), "default_equiv": True}
      op = {"op": "check", "check": spec, "batch": batch, "c07": c07}
      op["oracle"] = G.oracle_items(
          r, batch, pool, "ec", name != "CheckECKeySmallDifference",
          f["oracle"], joint_extra=lambda j: _far_from_all(pool, j))
    ops.append(op)

  fault_left = 1 if r.random() < max(f["fault"], 0.3) else 0
  dups = [j for j in range(n) if pool[j]["fam"] == "duplicate"]
  if fault_left:
    # Allocation failure inside a table build, then heal and carry on.  Placed
    # first (or right after a restart) so that no larger table exists yet and
    # the faulted call really has to build one.
    md = 2 ** r.randint(12, 16) + r.choice([0, 1, 3])
    spec = {"name": "CheckECKeySmallDifference", "how": "construct",
            "params": {"max_diff": md}, "slot": 5, "default_equiv": True}
    pair = [j for j in range(n) if pool[j]["fam"] == "small_diff"]
    cid = pool[pair[0]]["curve"] if pair else c1.cid
    batch = [j for j in pair if pool[j]["curve"] == cid]
    batch += [j for j in range(n) if pool[j]["curve"] == cid and
              j not in batch][:4]
    r.shuffle(batch)
    if len(batch) >= 2:
      if r.random() < 0.3:
        add_check()
        ops.append({"op": "restart"})
      if r.random() < 0.5:
        ops.append(G.call_fail_op(r, "ec"))
      else:
        ops.append({"op": "seam_fault", "kind": "alloc_fail",
                    "method": r.choice(["PointSequence", "PointSequence",
                                        "Multiply", "BatchAddX"]),
                    "k": r.randint(0, 1)})
      ops.append({"op": "check", "check": spec, "batch": batch,
                  "oracle": []})
      ops.append({"op": "heal"})
      ops.append({"op": "check", "check": dict(spec, slot=6),
                  "batch": batch,
                  "oracle": [{"relation": "same", "order": list(batch)}]})
      length += 3
  pair_c1 = [j for j in range(n) if pool[j]["fam"] == "small_diff"]
  chain = [j for j in range(n) if pool[j]["fam"] == "small_diff_chain"]
  if len(curves) > 1 and budget >= 2:
    # two curve partitions in one call, a positive verdict in exactly one of
    # them: the call's return value must be the OR over the partitions
    wk = [j for j in range(n) if pool[j]["fam"].startswith("weak_priv") and
          pool[j]["curve"] in (curves[0].cid, curves[1].cid)]
    if wk and r.random() < 0.8:
      w = r.choice(wk)
      other_cid = curves[1].cid if pool[w]["curve"] == curves[0].cid \
          else curves[0].cid
      quiet = [j for j in range(n) if pool[j]["curve"] == other_cid and
               pool[j]["fam"] in ("healthy", "negated_pair")]
      if quiet:
        b = [w] + quiet[:r.randint(1, 2)]
        r.shuffle(b)
        budget -= 2
        ops.append({"op": "check", "batch": b, "oracle": [],
                    "check": {"name": "CheckWeakECPrivateKey",
                              "how": "registry", "via": "all"}})
        length += 1
  dup_idx = [j for j in range(n) if pool[j]["fam"] == "duplicate"]
  if dup_idx and pair_c1 and r.random() < 0.6:
    # identical keys and a close pair in one batch: per-key bookkeeping
    # (indexes, partner mapping) must survive skipped duplicates
    cid = pool[pair_c1[0]]["curve"]
    hs = [j for j in range(n) if pool[j]["healthy"] and
          pool[j]["curve"] == cid and j not in dup_idx][:2]
    order = [j for j in dup_idx if pool[j]["curve"] == cid] + hs + \
        [j for j in pair_c1 if pool[j]["curve"] == cid]
    if r.random() < 0.4:
      r.shuffle(order)
    ops.append({"op": "check", "batch": order, "oracle": [],
                "check": {"name": "CheckECKeySmallDifference",
                          "how": "registry", "via": "all"}})
    length += 1
  if chain:
    # every order of a chain: the verdicts must follow the keys
    for _ in range(r.randint(1, 2)):
      order = list(chain) + r.sample([j for j in range(n) if j not in chain],
                                     min(n - len(chain), r.randint(0, 2)))
      r.shuffle(order)
      ops.append({"op": "check", "batch": order,
                  "check": {"name": "CheckECKeySmallDifference",
                            "how": "registry", "via": "all"},
                  "oracle": [{"relation": "perm",
                              "order": r.sample(order, len(order))}]
                  if r.random() < f["oracle"] else []})
    length += 2
  if pair_c1 and r.random() < 0.5:
    # table growth / reuse on one curve: a request that leaves a small table,
    # then the configured maximum (which must rebuild), or the other way round
    cid = pool[pair_c1[0]]["curve"]
    cc = A.curves()[cid]
    b = [j for j in pair_c1 if pool[j]["curve"] == cid]
    small = {"op": "curve_op", "curve": cid, "fn": "BatchDLOfDifferences",
             "max_diff": 2 ** r.randint(2, 6),
             "points": [[A.i2h(p[0]), A.i2h(p[1])] for p in
                        (cc.mul(r.randrange(1, int(cc.n))) for _ in range(2))]}
    full = {"op": "check", "batch": b + [j for j in range(n) if
                                        pool[j]["curve"] == cid and
                                        j not in b][:2],
            "check": {"name": "CheckECKeySmallDifference", "how": "registry",
                      "via": r.choice(["all", "aggregates"])},
            "oracle": [{"relation": "same", "order": list(b)}]
            if r.random() < 0.5 else []}
    if full["oracle"]:
      full["batch"] = list(b)
    ops += [small, full] if r.random() < 0.7 else [full, small, dict(full)]
    length += 2
  while len(ops) < length:
    u = r.random()
    if dups and u < 0.17:
      # a batch made only of identical keys (possibly in different encodings)
      choices = ["CheckECKeySmallDifference", "CheckValidECKey"]
      if budget >= 1:
        choices += ["CheckWeakECPrivateKey", "CheckWeakECPrivateKey", "ALL",
                    "ALL"]
      name = r.choice(choices)
      if name in ("CheckWeakECPrivateKey", "ALL"):
        budget -= 1
      if name == "ALL":
        extra = [j for j in range(n) if j not in dups and
                 pool[j]["curve"] == pool[dups[0]]["curve"]][:r.randint(0, 2)]
        b = list(dups) + extra
        r.shuffle(b)
        ops.append({"op": "check_all", "batch": b, "log_level": 0,
                    "oracle": []})
        continue
      ops.append({"op": "check", "batch": list(dups), "oracle": [],
                  "check": {"name": name, "how": "registry", "via": "all"}})
      continue
    if u < 0.55:
      add_check()
    elif u < 0.63:
      prev = [o for o in ops if o["op"] in ("check", "check_all")]
      cheap_prev = [o for o in prev if o["op"] == "check" and
                    o["check"]["name"] != "CheckWeakECPrivateKey"]
      if cheap_prev:
        o = dict(r.choice(cheap_prev))
        b = list(o["batch"])
        v = r.random()
        if v < 0.4:
          r.shuffle(b)
        elif v < 0.7 and len(b) > 1:
          b = r.sample(b, r.randint(1, len(b) - 1))
        o["batch"] = b
        o["oracle"] = []
        ops.append(o)
      else:
        add_check()
    elif u < 0.70:
      ops.append(_curve_op(r, r.choice(curves)))
    elif u < 0.70 + 0.5 * f["preann"]:
      j = r.randrange(n)
      ops.append({"op": "preannotate", "idx": j,
                  "ann": G.rand_annotation(r, "ec", names, pool[j])})
    elif u < 0.86:
      ops.append({"op": "clone", "batch": G.sub_batch(r, n, 1, n)})
    elif u < 0.91:
      ops.append({"op": "persist_reload"})
    elif u < 0.96:
      ops.append({"op": "restart"})
    else:
      ops.append(_ec_bad_call(r, names, c1))
  if ops[-1]["op"] not in ("check", "check_all"):
    add_check()
  return {"engine": "A", "kind": "ec", "profile": "ec", "focus": focus,
          "knobs": knobs, "pool": pool, "initial_annotations": initial,
          "ops": ops, "timeout": 1200.0}


def gen_ec_big(r, tier, f, focus):
  """Few runs with tables above 2^20 entries: >= 8 keys of one curve through
  ExtendedBatchDL (table = sqrt(2^32 * #multipliers * #keys) > 2^20), then the
  usual small requests on the same curve."""
  c = _pick_curve(r, [("secp256r1", 2), ("secp256k1", 2), ("secp224r1", 2),
                      ("brainpoolP256r1", 1)])
  max_diff = 2 ** r.randint(8, 14)
  pool = [A.ec_healthy(r, c) for _ in range(r.randint(5, 6))]
  weak = [ec_weak_priv_spec(r, c, 1), ec_weak_priv_spec(r, c, 2)]
  pair = A.ec_small_diff_pair(r, c, max_diff, inside=True)
  for a in pair:
    a["truth"]["pair"] = 0
  pool += weak + pair
  r.shuffle(pool)
  n = len(pool)
  wi = [j for j in range(n) if pool[j]["fam"].startswith("weak_priv")]
  pi = [j for j in range(n) if pool[j]["fam"] == "small_diff"]
  reg = lambda name: {"name": name, "how": "registry", "via": "all"}
  ops = []
  if r.random() < 0.5:
    ops.append({"op": "check", "check": reg("CheckECKeySmallDifference"),
                "batch": list(pi), "oracle": []})
  big = {"op": r.choice(["check_all", "check"]), "batch": list(range(n)),
         "oracle": [], "log_level": 0}
  if big["op"] == "check":
    big["check"] = reg("CheckWeakECPrivateKey")
  ops.append(big)
  tail = [
      {"op": "check", "check": reg("CheckECKeySmallDifference"),
       "batch": list(pi) + [r.randrange(n)], "oracle": []},
      {"op": "check", "check": reg("CheckWeakECPrivateKey"),
       "batch": [wi[0]], "oracle": []},
      {"op": "check_all", "batch": [wi[1]] + pi, "log_level": 0,
       "oracle": []},
  ]
  r.shuffle(tail)
  ops += tail[:r.randint(2, 3)]
  return {"engine": "A", "kind": "ec", "profile": "ec_big", "focus": focus,
          "knobs": {"clock_seed": r.getrandbits(32), "max_diff": max_diff,
                    "denylist": {}},
          "pool": pool, "initial_annotations": {}, "ops": ops,
          "timeout": 1500.0}


def gen_ec_default(r, tier, f, focus):
  """The shipped default max_diff = 2^24 (a 16.7 M entry table, about 3.2 GB
  and 100 s per process): thorough tier only, a couple of runs."""
  c = _pick_curve(r, [("secp256r1", 2), ("secp256k1", 1), ("secp224r1", 1)])
  pool = [A.ec_healthy(r, c), A.ec_healthy(r, c)]
  pair = A.ec_small_diff_pair(r, c, 2**24, inside=True)
  d1 = int(pair[0]["d"], 16)
  delta = r.choice([2**24 - 1, 2**23 + 5, r.randrange(2**20, 2**24)])
  pair = [A.ec_from_priv(c, d1, "small_diff", delta=delta, role="a", pair=0,
                         expect=["CheckECKeySmallDifference"]),
          A.ec_from_priv(c, d1 + delta, "small_diff", delta=-delta, role="b",
                         pair=0, expect=["CheckECKeySmallDifference"])]
  pool += pair + [ec_weak_priv_spec(r, c, 1)]
  r.shuffle(pool)
  n = len(pool)
  pi = [j for j in range(n) if pool[j]["fam"] == "small_diff"]
  wi = [j for j in range(n) if pool[j]["fam"].startswith("weak_priv")]
  reg = lambda name: {"name": name, "how": "registry", "via": "all"}
  ops = [{"op": "check", "check": reg("CheckECKeySmallDifference"),
          "batch": list(range(n)), "oracle": []},
         {"op": "check", "check": reg("CheckWeakECPrivateKey"),
          "batch": wi + [pi[0]], "oracle": []},
         {"op": "check", "check": reg("CheckECKeySmallDifference"),
          "batch": pi, "oracle": []},
         {"op": "check_all", "batch": list(range(n)), "log_level": 1,
          "oracle": []}]
  return {"engine": "A", "kind": "ec", "profile": "ec_default", "focus": focus,
          "knobs": {"clock_seed": r.getrandbits(32), "max_diff": None,
                    "denylist": {}},
          "pool": pool, "initial_annotations": {}, "ops": ops,
          "timeout": 3000.0}


def _far_from_all(pool, j):
  """A healthy key is a neutral addition to a joint EC check (uniform keys are
  never within a table's reach of another key)."""
  return pool[j]["fam"] == "healthy"


def _curve_op(r, c):
  """Engine-B style interleaving: leaves tables / memo caches of other sizes."""
  u = r.random()
  if u < 0.5:
    n = 2 ** r.randint(6, 20)
    xs = [r.randrange(0, n) for _ in range(r.randint(1, 6))]
    pts = []
    for x in xs:
      p = c.mul(x) if x else None
      if p is None:
        continue
      pts.append([A.i2h(p[0]), A.i2h(p[1])])
    return {"op": "curve_op", "curve": c.cid, "fn": "BatchDL", "n": n,
            "points": pts, "xs": xs}
  if u < 0.8:
    md = 2 ** r.randint(4, 17)
    d = r.randrange(2**64, int(c.n) - 2**64)
    pts = []
    for dd in (d, d + r.randrange(1, md), r.randrange(1, int(c.n))):
      p = c.mul(dd)
      pts.append([A.i2h(p[0]), A.i2h(p[1])])
    return {"op": "curve_op", "curve": c.cid, "fn": "BatchDLOfDifferences",
            "max_diff": md, "points": pts}
  return {"op": "curve_op", "curve": c.cid, "fn": "BatchMultiplyG",
          "scalars": [A.i2h(r.getrandbits(c.bits + 8) | 1)
                      for _ in range(r.randint(1, 4))], "points": []}


def _ec_bad_call(r, names, c):
  # an EC key is well-formed whatever its coordinates; ill-formed input here
  # is a non-ECKey object in the batch (the call may raise; not judged)
  art = {"t": "ec", "curve": c.cid, "x": "", "y": "", "fam": "illformed:none",
         "healthy": False, "wf": False, "truth": {}}
  return {"op": "bad_call", "arts": [art], "batch": [],
          "call": {"op": "check", "check": {"name": r.choice(names),
                                            "how": "registry", "via": "all"}}}


# ----------------------------------------------------------------------------
# ECDSA signatures
# ----------------------------------------------------------------------------


def _sig_cost(pool, batch):
  """Rough seconds for an all-checks call on this batch (measured rates)."""
  cost = 0.0
  curves = set()
  for j in batch:
    a = pool[j]
    if a["curve"] not in A.curves():
      continue
    name = A.curves()[a["curve"]].name
    curves.add(name)
    cost += {"secp256r1": 3.2, "secp256k1": 3.2, "secp384r1": 0.8}.get(
        name, 0.06)
  return cost + 2.5 * len(curves)


def _ecdsa_pool(r, f, focus, max_diff=256):
  c1 = _pick_curve(r, SIG_CURVE_WEIGHTS)
  curves = [c1]
  if r.random() < 0.35:
    curves.append(_pick_curve(r, SIG_CURVE_WEIGHTS, exclude=(c1.name,)))
  pool, groups = [], {}
  label = 0

  def add_group(arts, whole_or_few):
    nonlocal label
    idxs = list(range(len(pool), len(pool) + len(arts)))
    pool.extend(arts)
    groups["I%d" % label] = {"idx": idxs, "few": whole_or_few}
    label += 1

  nh = max(1, r.randint(*f["healthy"]) // 2)
  for _ in range(r.randint(1, 2)):
    iss = A.Issuer(r, r.choice(curves), "I%d" % label)
    add_group(iss.healthy(r, max(1, nh)), None)
  fams = ["msb", "prefix", "postfix", "u2f", "u2f", "weak_key", "invalid_key",
          "unknown_curve", "dup_sig", "hash_lens", "relabelled_key",
          "close_keys", "close_keys", "multi_fail", "lcg_java", "lcg_gmp",
          "twins"]
  enabled = set(r.sample(fams, r.randint(0 if focus == "C18" else 1, 4)))
  for kind in ("msb", "prefix", "postfix"):
    if kind in enabled:
      c = r.choice(curves)
      iss = A.Issuer(r, c, "I%d" % label)
      add_group(iss.biased(r, kind), 2)
  if "u2f" in enabled:
    c = r.choice(curves)
    if c.bits % 32 != 0 and r.random() < 0.7:
      c = A.curve_by_name(r.choice(["secp224r1", "secp224r1", "secp256r1",
                                    "brainpoolP256r1"]))
    if c.bits % 32 == 0:
      iss = A.Issuer(r, c, "I%d" % label)
      add_group(iss.u2f(r, 2, negative=r.random() < 0.4), 1)
      if r.random() < 0.6:
        # a signature on a larger curve: anything sized by 'the largest curve
        # seen so far' must not leak into the smaller one
        big = A.curve_by_name(r.choice(["secp384r1", "brainpoolP384r1",
                                        "brainpoolP512r1", "brainpoolP512r1",
                                        "brainpoolP512r1", "secp521r1"]))
        if big.bits > c.bits:
          iss = A.Issuer(r, big, "I%d" % label)
          add_group(iss.healthy(r, 1), None)
  if "weak_key" in enabled:
    c = r.choice(curves)
    wk = ec_weak_priv_spec(r, c)
    iss = A.Issuer(r, c, "I%d" % label, d=int(wk["d"], 16), weak_key=True)
    arts = iss.healthy(r, r.randint(1, 3))
    for a in arts:
      a["fam"] = "weak_issuer_key"
      a["healthy"] = False
    add_group(arts, None)
  if "close_keys" in enabled:
    # two issuers whose private keys differ by less than max_diff: each is
    # weak only through the other one (aggregate EC check on issuer keys)
    c = r.choice(curves)
    d1 = r.randrange(2**64, int(c.n) - 2**64)
    delta = r.choice([1, 2, r.randrange(1, max_diff), max_diff - 1])
    for d in (d1, d1 + delta):
      iss = A.Issuer(r, c, "I%d" % label, d=d, weak_key=True)
      arts = iss.healthy(r, r.randint(1, 2))
      for a in arts:
        a["fam"] = "close_issuer_keys"
        a["healthy"] = False
      add_group(arts, None)
  if "lcg_java" in enabled:
    c = A.curve_by_name(r.choice(["secp256r1", "secp256k1"]))
    arts = A.sigs_java_lcg(r, c, "I%d" % label, r.randint(2, 3))
    add_group(arts, 1)
  if "lcg_gmp" in enabled:
    arts = A.sigs_upstream_gmp_lcg("I%d" % label)
    if arts:
      add_group(arts, 1)
  if "multi_fail" in enabled:
    # an issuer key that fails two EC checks of different severity: weak curve
    # (MEDIUM) and structured private key (CRITICAL), or structured key plus a
    # close partner (CRITICAL and HIGH)
    if r.random() < 0.5:
      c = A.curve_by_name("secp192r1")
      wk = ec_weak_priv_spec(r, c)
      iss = A.Issuer(r, c, "I%d" % label, d=int(wk["d"], 16), weak_key=True)
      arts = iss.healthy(r, r.randint(1, 2))
      for a in arts:
        a.update(fam="multi_fail_issuer_key", healthy=False)
      add_group(arts, None)
    else:
      c = r.choice(curves)
      wk = ec_weak_priv_spec(r, c)
      d1 = int(wk["d"], 16)
      for d in (d1, d1 + r.randrange(1, max_diff)):
        iss = A.Issuer(r, c, "I%d" % label, d=d, weak_key=True)
        arts = iss.healthy(r, 1)
        for a in arts:
          a.update(fam="multi_fail_issuer_key", healthy=False)
        add_group(arts, None)
  if "invalid_key" in enabled:
    c = r.choice(curves)
    bad = A.ec_invalid(r, c, r.choice(A.EC_INVALID_KINDS))
    arts = []
    for _ in range(r.randint(1, 2)):
      hl = r.choice([0, 20, 32, 64])
      arts.append(A.sig_art(c.cid, bad["x"], bad["y"],
                            r.randrange(1, int(c.n)), r.randrange(1, int(c.n)),
                            r.getrandbits(8 * hl).to_bytes(hl, "big").hex()
                            if hl else "", "invalid_issuer_key", False,
                            "I%d" % label))
    add_group(arts, None)
  if "unknown_curve" in enabled:
    cid = r.choice([0, 99] + A.binary_curve_ids()[:3])
    arts = [A.sig_art(cid, A.i2h(r.getrandbits(256)), A.i2h(r.getrandbits(256)),
                      r.getrandbits(255) | 1, r.getrandbits(255) | 1,
                      A.i2h(r.getrandbits(256)), "unknown_curve", False,
                      "I%d" % label)]
    add_group(arts, None)
  if "dup_sig" in enabled and pool:
    src = dict(r.choice(pool))
    grp = src["issuer"]
    pool.append(src)
    groups[grp]["idx"].append(len(pool) - 1)
  if "twins" in enabled:
    # equal r under one issuer key: the malleated twin (r, n - s) and / or a
    # reused nonce; window- and pair-wise arithmetic on (r, s, z) triples meets
    # s1 + s2 = 0 and r1 - r2 = 0 (mod n)
    iss = A.Issuer(r, r.choice(curves), "I%d" % label)
    arts = iss.twins(r, reuse=r.random() < 0.4)
    if r.random() < 0.5:
      arts = arts[:1] + arts[len(arts) // 2:len(arts) // 2 + 1]
    add_group(arts, None)
  if "hash_lens" in enabled:
    iss = A.Issuer(r, r.choice(curves), "I%d" % label)
    arts = [iss.make(r, r.randrange(1, int(iss.c.n)), "healthy", True,
                     hash_len=hl) for hl in r.sample([0, 1, 16, 20, 28, 32, 48,
                                                      64, 66, 100], 3)]
    add_group(arts, None)
  if "relabelled_key" in enabled:
    # F3 shape: an issuer key's coordinates under another curve id
    src = next((a for a in pool if a["curve"] in A.curves()), None)
    if src is not None:
      others = [cid for cid in sorted(A.curves()) if cid != src["curve"]]
      cid = r.choice(others)
      c = A.curves()[cid]
      arts = [A.sig_art(cid, src["ix"], src["iy"], r.randrange(1, int(c.n)),
                        r.randrange(1, int(c.n)), A.i2h(r.getrandbits(256)),
                        "relabelled_issuer_key", False, "I%d" % label)]
      add_group(arts, None)
  return pool, groups, curves


def _sig_batch(r, pool, groups, whole_only=False):
  """A batch that never cuts a biased issuer group to a marginal size."""
  batch = []
  labels = sorted(groups)
  r.shuffle(labels)
  take = r.randint(1, len(labels))
  for lab in labels[:take]:
    g = groups[lab]
    u = r.random()
    if g["few"] is None:
      k = len(g["idx"]) if (u < 0.6 or whole_only) else r.randint(
          1, len(g["idx"]))
      batch += r.sample(g["idx"], k)
    elif u < 0.75 or whole_only:
      batch += g["idx"]
    else:
      batch += r.sample(g["idx"], r.randint(1, g["few"]))
  if r.random() < 0.6:
    r.shuffle(batch)
  return batch


def gen_ecdsa(r, tier, f, focus):
  max_diff = 2 ** r.randint(8, 14)
  pool, groups, curves = _ecdsa_pool(r, f, focus, max_diff)
  names, _ = G.active_names("ecdsa")
  n = len(pool)
  knobs = {"clock_seed": r.getrandbits(32), "max_diff": max_diff,
           "denylist": {}}
  ops = []
  initial = {}
  if r.random() < f["preann"]:
    for j in r.sample(range(n), r.randint(1, min(3, n))):
      initial[str(j)] = G.rand_annotation(r, "ecdsa", names, pool[j])
  length = r.randint(*f["hist"])
  budget = 45.0 if tier == "quick" else 90.0   # seconds of library time

  def joint_extra_for(batch):
    issuers = {pool[j]["issuer"] for j in batch}
    return lambda j: pool[j]["issuer"] not in issuers and pool[j]["healthy"]

  def add_check():
    nonlocal budget
    u = r.random()
    batch = _sig_batch(r, pool, groups)
    if focus == "C18" and r.random() < 0.2:
      batch = G.sub_batch(r, n, 0, 2)
    if focus == "C07" and r.random() < 0.4:
      batch = [j for j in range(n) if pool[j]["healthy"]]
    cost = _sig_cost(pool, batch)
    if u < 0.35 and 2 * cost <= budget:
      budget -= 2 * cost
      op = {"op": "check_all", "batch": batch,
            "log_level": r.choice([0, 0, 1]), "issuer_oracle": True}
      p = f["oracle"] if 2 * cost <= budget else 0.0
    else:
      pool_names = list(G.ECDSA_CHEAP)
      if budget > 6:
        pool_names += ["CheckIssuerKey", "CheckIssuerKey"]
      if 2 * cost <= budget and cost < 10:
        pool_names += ["CheckLCGNonceJavaUtilRandom"]
      name = r.choice(pool_names)
      if name == "CheckIssuerKey":
        budget -= 6
      elif name == "CheckLCGNonceJavaUtilRandom":
        budget -= 2 * cost
      op = {"op": "check", "batch": batch,
            "check": {"name": name,
                      "how": r.choice(["registry", "registry", "construct"]),
                      "via": "all", "params": {}, "slot": r.randrange(2)}}
      if name == "CheckIssuerKey":
        op["issuer_oracle"] = True
      p = f["oracle"] if name in G.ECDSA_CHEAP else 0.0
    items = G.oracle_items(r, batch, pool, "ecdsa", False, p,
                           joint_extra=joint_extra_for(batch))
    # 'alone' is meaningless for joint checks; keep same / perm / plus
    op["oracle"] = [it for it in items if it["relation"] != "alone"][:2]
    if op["op"] == "check_all" and op["oracle"]:
      op["oracle"] = op["oracle"][:1]
      budget -= cost
    ops.append(op)

  for fam, cname, cost in (("lcg:java", "CheckLCGNonceJavaUtilRandom", 22.0),
                           ("lcg:gmp", "CheckLCGNonceGMP", 4.0)):
    grp = [j for j in range(n) if pool[j]["fam"] == fam]
    if grp and budget >= cost:
      # the positive path of the LCG checks, with a neighbour of another issuer
      budget -= cost
      others = [j for j in range(n) if pool[j]["healthy"] and
                pool[j]["curve"] == pool[grp[0]]["curve"]][:1]
      b = grp + others
      r.shuffle(b)
      ops.append({"op": "check", "batch": b,
                  "check": {"name": cname, "how": "registry", "via": "all"},
                  "oracle": [{"relation": "perm", "order": r.sample(b, len(b))}]
                  if cname == "CheckLCGNonceGMP" and r.random() < f["oracle"]
                  else []})
      length += 1
  u2f = [j for j in range(n) if pool[j]["fam"].startswith("u2f")]
  if u2f:
    bigger = [j for j in range(n) if pool[j]["curve"] in A.curves() and
              A.curves()[pool[j]["curve"]].bits >
              A.curves()[pool[u2f[0]]["curve"]].bits]
    if bigger and r.random() < 0.8:
      # the CR50 group before and after a larger curve went through the check
      spec = {"name": "CheckCr50U2f", "how": "registry", "via": "all"}
      ops.append({"op": "check", "check": spec, "batch": list(u2f),
                  "oracle": []})
      biggest = max(bigger, key=lambda j: A.curves()[pool[j]["curve"]].bits)
      ops.append({"op": "check", "check": spec, "batch": [biggest],
                  "oracle": []})
      ops.append({"op": "check", "check": spec, "batch": list(u2f),
                  "oracle": [{"relation": "same", "order": list(u2f)}]
                  if r.random() < f["oracle"] else []})
      length += 3
  fault_left = 1 if r.random() < max(f["fault"], 0.45) else 0
  close = [j for j in range(n) if pool[j]["fam"] == "close_issuer_keys"]
  if close and r.random() < 0.6 and budget > 12:
    # first one of the two issuers alone, later both together: the verdict of
    # the first must follow the batch, not what was seen before
    budget -= 12
    first_label = pool[close[0]]["issuer"]
    alone = [j for j in close if pool[j]["issuer"] == first_label]
    spec = {"name": "CheckIssuerKey", "how": "registry", "via": "all"}
    ops.append({"op": "check", "check": spec, "batch": alone,
                "issuer_oracle": True, "oracle": []})
    length += 2
    together_pending = {"op": "check", "check": spec, "batch": list(close),
                        "issuer_oracle": True,
                        "oracle": [{"relation": "same", "order": list(close)}]
                        if r.random() < max(f["oracle"], 0.3) else []}
  else:
    together_pending = None
  while len(ops) < length:
    u = r.random()
    if together_pending is not None and len(ops) >= 2 and u < 0.35:
      ops.append(together_pending)
      together_pending = None
      continue
    if fault_left and u < 0.25:
      fault_left = 0
      # allocation failure at an arbitrary function entry during a cheap
      # nonce check; heal; the same check again
      biased = [g["idx"] for g in groups.values()
                if pool[g["idx"][0]]["fam"].startswith(("bias:", "u2f"))]
      if biased and r.random() < 0.8:
        # a group whose verdict is positive, plus a neighbour
        grp = r.choice(biased)
        fam = pool[grp[0]]["fam"]
        nm = {"bias:msb": "CheckNonceMSB", "bias:prefix":
              "CheckNonceCommonPrefix", "bias:postfix":
              "CheckNonceCommonPostfix"}.get(fam, "CheckCr50U2f")
        if r.random() < 0.3:
          nm = "CheckNonceGeneralized" if fam.startswith("bias") else nm
        batch = list(grp) + [j for j in range(n) if pool[j]["healthy"]][:1]
      else:
        nm = r.choice(["CheckNonceMSB", "CheckNonceCommonPrefix",
                       "CheckCr50U2f", "CheckNonceGeneralized"])
        batch = _sig_batch(r, pool, groups, whole_only=True)
      spec = {"name": nm, "how": "registry", "via": "all"}
      cf = G.call_fail_op(r, "ecdsa")
      if r.random() < 0.5:
        # count only entries of the curve arithmetic: lands in the point
        # multiplications that compare guesses with issuer keys
        cf["modules"] = ["paranoid_crypto.lib.ec_util"]
        cf["k"] = int(2 ** (r.random() * 13))
      ops.append(cf)
      ops.append({"op": "check", "check": spec, "batch": batch, "oracle": []})
      ops.append({"op": "heal"})
      ops.append({"op": "check", "check": spec, "batch": batch,
                  "oracle": [{"relation": "same", "order": list(batch)}]})
      continue
    if fault_left and u < 0.20 and budget > 14:
      fault_left = 0
      budget -= 14
      spec = {"name": "CheckIssuerKey", "how": "registry", "via": "all"}
      batch = _sig_batch(r, pool, groups, whole_only=True)
      ops.append({"op": "seam_fault", "kind": "alloc_fail",
                  "method": r.choice(["PointSequence", "BatchAddX",
                                      "Multiply"]), "k": r.randint(0, 2)})
      ops.append({"op": "check", "check": spec, "batch": batch, "oracle": []})
      ops.append({"op": "heal"})
      ops.append({"op": "check", "check": spec, "batch": batch,
                  "issuer_oracle": True, "oracle": []})
      continue
    if u < 0.60:
      add_check()
    elif u < 0.68:
      prev = [o for o in ops if o["op"] == "check" and
              o["check"]["name"] in G.ECDSA_CHEAP]
      if prev:
        o = dict(r.choice(prev))
        b = list(o["batch"])
        r.shuffle(b)
        o["batch"] = b
        o["oracle"] = []
        ops.append(o)
      else:
        add_check()
    elif u < 0.68 + 0.5 * f["preann"]:
      j = r.randrange(n)
      ops.append({"op": "preannotate", "idx": j,
                  "ann": G.rand_annotation(r, "ecdsa", names, pool[j])})
    elif u < 0.84:
      ops.append({"op": "clone", "batch": G.sub_batch(r, n, 1, n)})
    elif u < 0.89:
      ops.append({"op": "persist_reload"})
    elif u < 0.94:
      ops.append({"op": "restart"})
    elif u < 0.97:
      ops.append(_curve_op(r, curves[0]))
    else:
      ops.append(_sig_bad_call(r, names, curves[0]))
  if together_pending is not None:
    ops.append(together_pending)
  if ops[-1]["op"] not in ("check", "check_all"):
    add_check()
  return {"engine": "A", "kind": "ecdsa", "profile": "ecdsa", "focus": focus,
          "knobs": knobs, "pool": pool, "initial_annotations": initial,
          "ops": ops, "timeout": 1500.0}


def gen_allcurves(r, tier, f, focus, kind):
  """Healthy artifacts on every one of the eight supported strong curves in
  one run (statement of C07), through the cheap checks and one all-checks
  call."""
  ids = A.strong_curve_ids()
  reg = lambda name: {"name": name, "how": "registry", "via": "all"}
  knobs = {"clock_seed": r.getrandbits(32), "max_diff": 2 ** r.randint(8, 11),
           "denylist": {}}
  if kind == "ec":
    pool = []
    for cid in ids:
      for _ in range(r.randint(1, 2)):
        pool.append(A.ec_healthy(r, A.curves()[cid]))
    r.shuffle(pool)
    allb = list(range(len(pool)))
    ops = [{"op": "check", "check": reg("CheckValidECKey"), "batch": allb,
            "oracle": []},
           {"op": "check", "check": reg("CheckWeakCurve"),
            "batch": r.sample(allb, len(allb)), "oracle": []},
           {"op": "check", "check": reg("CheckECKeySmallDifference"),
            "batch": allb, "oracle": []},
           {"op": "check_all", "batch": r.sample(allb, len(allb)),
            "log_level": 0, "oracle": []}]
    return {"engine": "A", "kind": "ec", "profile": "ec_allcurves",
            "focus": focus, "knobs": knobs, "pool": pool,
            "initial_annotations": {}, "ops": ops, "timeout": 2400.0}
  pool = []
  for k, cid in enumerate(ids):
    iss = A.Issuer(r, A.curves()[cid], "I%d" % k)
    pool += iss.healthy(r, r.randint(1, 2))
  r.shuffle(pool)
  allb = list(range(len(pool)))
  ops = [{"op": "check", "check": reg(nm), "batch": r.sample(allb, len(allb)),
          "oracle": []} for nm in ("CheckNonceMSB", "CheckNonceGeneralized",
                                   "CheckCr50U2f", "CheckLCGNonceGMP")]
  ops.append({"op": "check", "check": reg("CheckIssuerKey"), "batch": allb,
              "issuer_oracle": True, "oracle": []})
  ops.append({"op": "check_all", "batch": allb, "log_level": 0,
              "issuer_oracle": True, "oracle": []})
  return {"engine": "A", "kind": "ecdsa", "profile": "ecdsa_allcurves",
          "focus": focus, "knobs": knobs, "pool": pool,
          "initial_annotations": {}, "ops": ops, "timeout": 2400.0}


def gen_ecdsa_large(r, tier, f, focus):
  """Many signatures (up to 200) of many healthy issuers on a cheap curve,
  with one biased group and one weak issuer key among them."""
  c = _pick_curve(r, [("secp224r1", 3), ("brainpoolP256r1", 2),
                      ("secp521r1", 1)])
  nsig = r.randint(60, 90) if tier == "quick" else r.randint(120, 200)
  pool = []
  label = 0
  while len(pool) < nsig:
    iss = A.Issuer(r, c, "I%d" % label)
    label += 1
    pool += iss.healthy(r, r.randint(1, 12))
  iss = A.Issuer(r, c, "I%d" % label)
  label += 1
  pool += iss.biased(r, r.choice(["msb", "prefix", "postfix"]))
  wk = ec_weak_priv_spec(r, c)
  iss = A.Issuer(r, c, "I%d" % label, d=int(wk["d"], 16), weak_key=True)
  arts = iss.healthy(r, 2)
  for a in arts:
    a.update(fam="weak_issuer_key", healthy=False)
  pool += arts
  r.shuffle(pool)
  n = len(pool)
  healthy = [j for j in range(n) if pool[j]["healthy"]]
  reg = lambda name: {"name": name, "how": "registry", "via": "all"}
  ops = [{"op": "check_all", "batch": list(range(n)), "log_level": 0,
          "issuer_oracle": True, "oracle": []},
         {"op": "check", "check": reg("CheckNonceMSB"),
          "batch": r.sample(range(n), n), "oracle": []},
         {"op": "check_all", "batch": healthy, "log_level": 1,
          "issuer_oracle": True, "oracle": []},
         {"op": "check", "check": reg("CheckNonceGeneralized"),
          "batch": list(range(n)),
          "oracle": [{"relation": "perm", "order": r.sample(range(n), n)}]}]
  if r.random() < 0.5:
    ops.insert(r.randint(1, 3), {"op": "restart"})
  return {"engine": "A", "kind": "ecdsa", "profile": "ecdsa_large",
          "focus": focus, "knobs": {"clock_seed": r.getrandbits(32),
                                    "max_diff": 2 ** r.randint(8, 12),
                                    "denylist": {}},
          "pool": pool, "initial_annotations": {}, "ops": ops,
          "timeout": 2400.0}


def _sig_bad_call(r, names, c):
  iss = A.Issuer(r, c, "BAD")
  a = iss.make(r, 12345, "illformed", False)
  kind = r.choice(["s_zero", "r_zero", "s_eq_n"])
  if kind == "s_zero":
    a["s"] = ""
  elif kind == "r_zero":
    a["r"] = "00"
  else:
    a["s"] = A.i2h(int(c.n))
  a.update(fam="illformed:" + kind, wf=False)
  return {"op": "bad_call", "arts": [a], "batch": [],
          "call": {"op": "check",
                   "check": {"name": r.choice(names), "how": "registry",
                             "via": "all"}}}


# ----------------------------------------------------------------------------
# directed scenarios
# ----------------------------------------------------------------------------


def directed_plans(prop, profile):
  out = []
  r = random.Random(1234)
  if profile == "ec" and prop in ("C18",):
    # F2: x and x+p on one curve in one batch (non-canonical coordinates)
    c = A.curve_by_name("secp256r1")
    base = A.ec_healthy(r, c)
    twin = A.ec_art(c.cid, int(base["x"], 16) + int(c.p), int(base["y"], 16),
                    "invalid:x_plus_p")
    out.append(("directed-congruent-x", {
        "engine": "A", "kind": "ec", "profile": "ec", "focus": prop,
        "knobs": {"clock_seed": 3, "max_diff": 256, "denylist": {}},
        "pool": [base, twin], "initial_annotations": {},
        "ops": [{"op": "check",
                 "check": {"name": "CheckECKeySmallDifference",
                           "how": "registry", "via": "all"},
                 "batch": [0, 1], "oracle": []}],
        "timeout": 300.0}))
  if profile in ("ec", "ecdsa") and prop in ("C16",):
    # F11 on the EC / ECDSA registries: a constructor fails during the first fill
    c = A.curve_by_name("secp224r1")
    if profile == "ec":
      pool = [A.ec_healthy(r, c)]
      mods, k = ["paranoid_crypto.lib.ec_aggregate_checks"], 0
    else:
      pool = A.Issuer(r, c, "I0").healthy(r, 1)
      mods, k = ["paranoid_crypto.lib.ecdsa_sig_checks"], 4
    out.append(("directed-registry-fault-" + profile, {
        "engine": "A", "kind": profile, "profile": profile, "focus": prop,
        "knobs": {"clock_seed": 8, "max_diff": 256, "denylist": {}},
        "pool": pool, "initial_annotations": {},
        "ops": [{"op": "seam_fault", "kind": "call_fail", "k": k,
                 "modules": mods},
                {"op": "check_all", "batch": [0], "log_level": 0,
                 "oracle": []},
                {"op": "heal"},
                {"op": "check_all", "batch": [0], "log_level": 0,
                 "oracle": []}],
        "timeout": 600.0}))
  if profile == "ec" and prop in ("C10",):
    # top-shift forms on a curve whose order length is not a multiple of 8
    c = A.curve_by_name("secp521r1")
    keys = []
    for v, sh in ((0x01FFFFFF, 496), (0x01234567, 496), (0x1ABCD, 504),
                  (0x1FF, 512), (0x00FFFFFF, 496)):
      keys.append(A.ec_from_priv(c, v << sh, "weak_priv:shift%d" % sh, v=v,
                                 mult=A.i2h(1 << sh), edge="top_shift",
                                 expect=["CheckWeakECPrivateKey"]))
    out.append(("directed-top-shift-521", {
        "engine": "A", "kind": "ec", "profile": "ec", "focus": prop,
        "knobs": {"clock_seed": 6, "max_diff": 256, "denylist": {}},
        "pool": keys, "initial_annotations": {},
        "ops": [{"op": "check",
                 "check": {"name": "CheckWeakECPrivateKey", "how": "registry",
                           "via": "all"}, "batch": [0, 1, 2, 3, 4],
                 "oracle": []}],
        "timeout": 900.0}))
  if profile == "ecdsa" and prop in ("C17",):
    # CR50-shaped nonces on the smallest 32-bit-aligned curves, judged before
    # and after one signature of every larger curve went through the same
    # singleton check: anything sized by 'the largest curve seen so far' must
    # not leak into the smaller one (always present, whatever the random pools
    # of the batch hold)
    rr = random.Random(4321)
    for small in ("secp224r1", "secp256r1"):
      c = A.curve_by_name(small)
      pool = A.Issuer(rr, c, "I0").u2f(rr, 2) + \
          A.Issuer(rr, c, "I1").u2f(rr, 2, negative=True)
      nu = len(pool)
      for k, big in enumerate(("secp384r1", "brainpoolP512r1", "secp521r1")):
        pool += A.Issuer(rr, A.curve_by_name(big), "B%d" % k).healthy(rr, 1)
      u2f = list(range(nu))
      spec = {"name": "CheckCr50U2f", "how": "registry", "via": "all"}
      ops = [{"op": "check", "check": spec, "batch": u2f, "oracle": []}]
      for j in range(nu, len(pool)):
        ops.append({"op": "check", "check": spec, "batch": [j], "oracle": []})
        ops.append({"op": "check", "check": spec, "batch": u2f,
                    "oracle": [{"relation": "same", "order": u2f}]})
      ops.append({"op": "check", "check": spec,
                  "batch": list(range(len(pool) - 1, -1, -1)), "oracle": []})
      out.append(("directed-cr50-after-larger-curves-" + small, {
          "engine": "A", "kind": "ecdsa", "profile": "ecdsa", "focus": prop,
          "knobs": {"clock_seed": 11, "max_diff": 256, "denylist": {}},
          "pool": pool, "initial_annotations": {}, "ops": ops,
          "timeout": 900.0}))
  if profile == "ec" and prop in ("C17",):
    # F5b: a pair beyond max_diff, alone and with healthy keys added (the
    # all-checks call builds a table that grows with the batch)
    c = A.curve_by_name("secp224r1")
    d1 = r.randrange(2**64, int(c.n) - 2**64)
    pair = [A.ec_from_priv(c, d1, "far_diff", delta=600000, role="a", pair=0),
            A.ec_from_priv(c, d1 + 600000, "far_diff", delta=-600000, role="b",
                           pair=0)]
    hs = [A.ec_healthy(r, c), A.ec_healthy(r, c)]
    out.append(("directed-far-pair-plus-healthy", {
        "engine": "A", "kind": "ec", "profile": "ec", "focus": prop,
        "knobs": {"clock_seed": 9, "max_diff": 256, "denylist": {}},
        "pool": pair + hs, "initial_annotations": {},
        "ops": [{"op": "check_all", "batch": [0, 1], "log_level": 0,
                 "oracle": [{"relation": "plus", "order": [0, 1, 2, 3]}]}],
        "timeout": 600.0}))
  if profile == "ec" and prop in ("C17",):
    # F5: overshoot zone of BatchDL; alone in a fresh process vs after a batch
    c = A.curve_by_name("secp256r1")
    over = A.ec_from_priv(c, 4296000001, "overshoot", v=4296000001, mult="01")
    others = [A.ec_healthy(r, c) for _ in range(3)]
    out.append(("directed-overshoot", {
        "engine": "A", "kind": "ec", "profile": "ec", "focus": prop,
        "knobs": {"clock_seed": 4, "max_diff": 256, "denylist": {}},
        "pool": [over] + others, "initial_annotations": {},
        "ops": [{"op": "check",
                 "check": {"name": "CheckWeakECPrivateKey", "how": "registry",
                           "via": "all"}, "batch": [1, 2, 3], "oracle": []},
                {"op": "check",
                 "check": {"name": "CheckWeakECPrivateKey", "how": "registry",
                           "via": "all"}, "batch": [0],
                 "oracle": [{"relation": "same", "order": [0]}]}],
        "timeout": 600.0}))
  if profile == "ecdsa" and prop in ("C16", "C17"):
    # F3: signature B carries A's issuer coordinates under another curve id
    c = A.curve_by_name("secp224r1")
    c2 = A.curve_by_name("secp256k1")
    iss = A.Issuer(r, c, "I0")
    a = iss.healthy(r, 1)[0]
    b = A.sig_art(c2.cid, a["ix"], a["iy"], r.randrange(1, int(c2.n)),
                  r.randrange(1, int(c2.n)), A.i2h(r.getrandbits(256)),
                  "relabelled_issuer_key", False, "I1")
    spec = {"name": "CheckIssuerKey", "how": "registry", "via": "all"}
    out.append(("directed-issuer-curve-alias", {
        "engine": "A", "kind": "ecdsa", "profile": "ecdsa", "focus": prop,
        "knobs": {"clock_seed": 5, "max_diff": 256, "denylist": {}},
        "pool": [a, b], "initial_annotations": {},
        "ops": [{"op": "check", "check": spec, "batch": [0, 1],
                 "issuer_oracle": True,
                 "oracle": [{"relation": "perm", "order": [1, 0]}]},
                {"op": "check", "check": spec, "batch": [1, 0],
                 "issuer_oracle": True, "oracle": []}],
        "timeout": 600.0}))
  return out


def gen_ecdsa_huge(r, tier, f, focus):
  """More than a thousand single-signature healthy issuers on one curve next
  to a few biased groups: every per-curve pool inside the nonce checks (guesses
  to verify, issuer keys, lattice jobs) grows past any internal slice, chunk or
  round size (a change seeded in round 6 verified guesses in slices of 1024)."""
  c = _pick_curve(r, [("secp256r1", 3), ("secp224r1", 2), ("secp256k1", 1)])
  nh = r.randint(2600, 3400) if tier == "quick" else r.randint(1100, 5000)
  weak = []
  for g in range(r.randint(4, 6)):
    iss = A.Issuer(r, c, "W%d" % g)
    weak += iss.biased(r, r.choice(["msb", "prefix", "postfix"]))
  pool = list(weak)
  for h in range(nh):
    pool += A.Issuer(r, c, "H%d" % h).healthy(r, 1)
  n = len(pool)
  w = list(range(len(weak)))
  reg = lambda name: {"name": name, "how": "registry", "via": "all"}
  everything = r.sample(range(n), n)
  ops = [{"op": "check", "check": reg("CheckNonceMSB"), "batch": list(w),
          "oracle": [{"relation": "plus", "order": list(everything)}]},
         {"op": "check", "check": reg("CheckNonceGeneralized"),
          "batch": list(w),
          "oracle": [{"relation": "plus", "order": r.sample(range(n), n)}]},
         {"op": "check", "check": reg("CheckNonceCommonPrefix"),
          "batch": list(everything),
          "oracle": [{"relation": "perm", "order": r.sample(range(n), n)}]}]
  return {"engine": "A", "kind": "ecdsa", "profile": "ecdsa_huge",
          "focus": focus, "knobs": {"clock_seed": r.getrandbits(32),
                                    "max_diff": 2 ** r.randint(8, 12),
                                    "denylist": {}},
          "pool": pool, "initial_annotations": {}, "ops": ops,
          "timeout": 1500.0}
