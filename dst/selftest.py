"""Determinism self-test (DESIGN 7).

Every run's canonical event log is digested; the same seeds are executed
 (a) twice in this interpreter at two different worker counts (16 and 7), and
 (b) once more in a re-exec'd interpreter with another PYTHONHASHSEED,
and all digests must agree.  Exit 0 on agreement, 2 otherwise.
"""

import json
import os
import subprocess
import sys

from dst import checks
from dst import runner


def _jobs(props, n, tier, seed):
  jobs = []
  for prop in props:
    for engine, profile, _, _ in checks.PLANS[prop]:
      k = n
      if profile in ("ec_big", "ec_default", "rsa_lhw", "rsa_huge",
                     "rsa_large", "ecdsa_large", "ecdsa_huge", "ec_allcurves",
                     "ecdsa_allcurves"):
        k = min(n, 1) if profile != "ec_default" else 0
      elif profile in ("ec", "ecdsa", "e2e"):
        k = max(1, n // 4)
      for i in range(k):
        jobs.append(runner.make_job(engine, prop, profile, tier, seed, i))
  return jobs


def _digests(jobs, workers):
  results, _ = runner.run_jobs(jobs, workers, 1e9)
  out = {}
  for job_res in results:
    key = "%s/%s/%s" % (job_res["engine"], job_res["profile"],
                        job_res["run_index"])
    # run index is unique per (engine, profile) only within one property
    out.setdefault(key, [])
    out[key].append(job_res.get("digest") if job_res["ok"]
                    else "ERR:" + job_res["error"][:80])
  return out


def run_models():
  """Sanity of the trusted base: the reference models against fixed vectors
  and against independent library routines."""
  import random
  import mpmath
  from scipy import special
  from dst import artifacts as A
  from dst import engine_c as C
  from dst import engine_d as D
  bad = 0
  # java.util.Random / BigInteger(n, rnd): vectors produced by a JDK (they are
  # also the expected values of upstream's rng_test.testJavaRandom)
  jdk = [0, 0xFFFB, 0x4FFFB5CF5, 0xCFFFB5CF57358, 0x1CFFFB5CF573588FF9]
  for i, want in enumerate(jdk):
    got = D.model_java_biginteger(i * 17 + 1, 0x123456789ABD)
    if got != want:
      bad += 1
      print("MODEL-ERROR java BigInteger n=%d: %x != %x" % (i * 17 + 1, got,
                                                           want))
  # continuing stream == fresh stream for the first draw
  jr = A.JavaUtilRandom(42)
  if jr.biginteger(100) != D.model_java_biginteger(100, 42):
    bad += 1
    print("MODEL-ERROR JavaUtilRandom first draw")
  # Fisher closed form against the regularised incomplete gamma function
  r = random.Random(1)
  for _ in range(300):
    pv = [r.random() ** r.choice([1, 3, 8]) for _ in range(r.randint(2, 9))]
    a = float(C.fisher(pv))
    b = float(special.gammaincc(len(pv), float(-sum(mpmath.log(p) for p in pv))))
    if abs(a - b) > 1e-9 * max(a, b, 1e-300) and abs(a - b) > 1e-15:
      bad += 1
      print("MODEL-ERROR fisher %r: %r vs %r" % (pv, a, b))
  # independent affine arithmetic against the library's Jacobian Multiply
  from paranoid_crypto.lib import ec_util
  for cid, c in sorted(A.curves().items()):
    lib = ec_util.CURVE_FACTORY[cid]
    for _ in range(3):
      k = r.randrange(1, int(c.n))
      p1 = c.mul(k)
      p2 = lib.Multiply(lib.g, k)
      if (int(p1[0]), int(p1[1])) != (int(p2[0]), int(p2[1])):
        bad += 1
        print("MODEL-ERROR MiniCurve.mul on %s" % c.name)
    if c.mul(int(c.n)) is not None or not c.on_curve(c.g):
      bad += 1
      print("MODEL-ERROR curve parameters of %s" % c.name)
  # signing: s*k = z + r*d (mod n)
  c = A.curve_by_name("secp256r1")
  iss = A.Issuer(r, c, "T")
  k = r.randrange(1, int(c.n))
  a = iss.make(r, k, "t", True, hash_len=32)
  z = A.transform_order_len(c, int(a["h"], 16), 256)
  if (int(a["s"], 16) * k - z - int(a["r"], 16) * iss.d) % int(c.n) != 0:
    bad += 1
    print("MODEL-ERROR ECDSA signing equation")
  print("selftest models: %d errors" % bad)
  return 0 if bad == 0 else 2


def run(args):
  if args.what == "models":
    return run_models()
  props = [p for p in args.properties.split(",") if p] or sorted(checks.PLANS)
  seed = int(os.environ.get("VERIF_SEED", "0"))
  out = {}
  for prop in props:
    jobs = _jobs([prop], args.runs, args.tier, seed)
    out[prop] = _digests(jobs, args.workers or 16)
  if args.emit:
    print("DIGESTS " + json.dumps(out, sort_keys=True))
    return 0
  bad = 0
  total = 0
  # (a) second pass with another worker count
  for prop in props:
    jobs = _jobs([prop], args.runs, args.tier, seed)
    second = _digests(jobs, 7)
    for key, dg in out[prop].items():
      total += 1
      if second.get(key) != dg or any(str(d).startswith("ERR") for d in dg):
        bad += 1
        print("NONDETERMINISTIC (workers): %s %s: %s vs %s" %
              (prop, key, dg, second.get(key)))
  print("selftest: %d runs digested twice at worker counts %d and 7: %d "
        "mismatches" % (total, args.workers or 16, bad))
  # (b) fresh interpreter, other hash seed
  if args.reexec:
    env = dict(os.environ, PYTHONHASHSEED="424242")
    cmd = [sys.executable, "-m", "dst.cli", "selftest", "determinism",
           "--runs", str(args.runs), "--properties", ",".join(props),
           "--tier", args.tier, "--repo", args.repo, "--emit"]
    if args.workers:
      cmd += ["--workers", str(args.workers)]
    r = subprocess.run(cmd, capture_output=True, text=True, env=env,
                       cwd=os.path.dirname(os.path.dirname(
                           os.path.abspath(__file__))))
    line = [l for l in r.stdout.split("\n") if l.startswith("DIGESTS ")]
    if not line:
      print("selftest: re-exec failed: %s %s" % (r.stdout[-500:],
                                                 r.stderr[-500:]))
      return 2
    other = json.loads(line[0][8:])
    bad2 = 0
    for prop in props:
      for key, dg in out[prop].items():
        if other.get(prop, {}).get(key) != dg:
          bad2 += 1
          print("NONDETERMINISTIC (hash seed): %s %s" % (prop, key))
    print("selftest: fresh interpreter with PYTHONHASHSEED=424242: %d "
          "mismatches of %d" % (bad2, total))
    bad += bad2
  return 0 if bad == 0 else 2
