"""Determinism self-test (DESIGN 7).

Every run's canonical event log is digested; the same seeds are executed
 (a) twice in this interpreter at two different worker counts (16 and 7), and
 (b) once more in a re-exec'd interpreter with another PYTHONHASHSEED,
and all digests must agree.  Exit 0 on agreement, 2 otherwise.
"""

import json
import os
import subprocess
import sys

from dst import checks
from dst import runner


def _jobs(props, n, tier, seed):
  jobs = []
  for prop in props:
    for engine, profile, _, _ in checks.PLANS[prop]:
      k = n
      if profile in ("ec_big", "ec_default", "rsa_lhw", "rsa_huge",
                     "rsa_large", "ecdsa_large", "ec_allcurves",
                     "ecdsa_allcurves"):
        k = min(n, 1) if profile != "ec_default" else 0
      elif profile in ("ec", "ecdsa", "e2e"):
        k = max(1, n // 4)
      for i in range(k):
        jobs.append(runner.make_job(engine, prop, profile, tier, seed, i))
  return jobs


def _digests(jobs, workers):
  results, _ = runner.run_jobs(jobs, workers, 1e9)
  out = {}
  for job_res in results:
    key = "%s/%s/%s" % (job_res["engine"], job_res["profile"],
                        job_res["run_index"])
    # run index is unique per (engine, profile) only within one property
    out.setdefault(key, [])
    out[key].append(job_res.get("digest") if job_res["ok"]
                    else "ERR:" + job_res["error"][:80])
  return out


def run(args):
  props = [p for p in args.properties.split(",") if p] or sorted(checks.PLANS)
  seed = int(os.environ.get("VERIF_SEED", "0"))
  out = {}
  for prop in props:
    jobs = _jobs([prop], args.runs, args.tier, seed)
    out[prop] = _digests(jobs, args.workers or 16)
  if args.emit:
    print("DIGESTS " + json.dumps(out, sort_keys=True))
    return 0
  bad = 0
  total = 0
  # (a) second pass with another worker count
  for prop in props:
    jobs = _jobs([prop], args.runs, args.tier, seed)
    second = _digests(jobs, 7)
    for key, dg in out[prop].items():
      total += 1
      if second.get(key) != dg or any(str(d).startswith("ERR") for d in dg):
        bad += 1
        print("NONDETERMINISTIC (workers): %s %s: %s vs %s" %
              (prop, key, dg, second.get(key)))
  print("selftest: %d runs digested twice at worker counts %d and 7: %d "
        "mismatches" % (total, args.workers or 16, bad))
  # (b) fresh interpreter, other hash seed
  if args.reexec:
    env = dict(os.environ, PYTHONHASHSEED="424242")
    cmd = [sys.executable, "-m", "dst.cli", "selftest", "determinism",
           "--runs", str(args.runs), "--properties", ",".join(props),
           "--tier", args.tier, "--repo", args.repo, "--emit"]
    if args.workers:
      cmd += ["--workers", str(args.workers)]
    r = subprocess.run(cmd, capture_output=True, text=True, env=env,
                       cwd=os.path.dirname(os.path.dirname(
                           os.path.abspath(__file__))))
    line = [l for l in r.stdout.split("\n") if l.startswith("DIGESTS ")]
    if not line:
      print("selftest: re-exec failed: %s %s" % (r.stdout[-500:],
                                                 r.stderr[-500:]))
      return 2
    other = json.loads(line[0][8:])
    bad2 = 0
    for prop in props:
      for key, dg in out[prop].items():
        if other.get(prop, {}).get(key) != dg:
          bad2 += 1
          print("NONDETERMINISTIC (hash seed): %s %s" % (prop, key))
    print("selftest: fresh interpreter with PYTHONHASHSEED=424242: %d "
          "mismatches of %d" % (bad2, total))
    bad += bad2
  return 0 if bad == 0 else 2
