"""Deterministic simulation with fault injection for google/paranoid_crypto.

See /verif/DESIGN.md.  Entry point: python -m dst.cli
"""
