"""Shared infrastructure: seeds, canonical logs, child processes, replay files,
known findings, evidence files."""

import faulthandler
import hashlib
import json
import os
import pickle
import select
import signal
import struct
import sys
import time
import traceback

VERIF_ROOT = os.path.dirname(os.path.dirname(os.path.abspath(__file__)))
REPLAY_DIR = os.path.join(VERIF_ROOT, "replays")
EVIDENCE_DIR = os.path.join(VERIF_ROOT, "evidence")
KNOWN_FILE = os.path.join(VERIF_ROOT, "KNOWN_FINDINGS.txt")


class HarnessError(Exception):
  """The machinery failed (never reported as exit 0, never as VIOLATION)."""


# ----------------------------------------------------------------------------
# seeds and canonical digests
# ----------------------------------------------------------------------------


def derive_seed(verif_seed, *parts):
  """run_seed = SHA-256(VERIF_SEED || parts...) as a 128-bit integer."""
  h = hashlib.sha256()
  h.update(str(int(verif_seed)).encode())
  for p in parts:
    h.update(b"\x00" + str(p).encode())
  return int.from_bytes(h.digest()[:16], "big")


def _norm(o):
  """Plain-data normal form: big ints as hex text, sets sorted, tuples lists."""
  if isinstance(o, bool) or o is None or isinstance(o, (str, float)):
    return o
  if isinstance(o, int):
    return o if -2**63 < o < 2**63 else "0x%x" % o if o >= 0 else "-0x%x" % -o
  if isinstance(o, dict):
    return {str(k): _norm(v) for k, v in o.items()}
  if isinstance(o, (list, tuple)):
    return [_norm(v) for v in o]
  if isinstance(o, (set, frozenset)):
    return sorted((_norm(v) for v in o), key=repr)
  if isinstance(o, bytes):
    return o.hex()
  if hasattr(o, "__int__"):
    return _norm(int(o))
  raise TypeError("not serialisable: %r" % type(o))


def canon(obj):
  """Canonical JSON text (sorted keys, no whitespace variance)."""
  return json.dumps(_norm(obj), sort_keys=True, separators=(",", ":"))


def _json_default(o):
  if isinstance(o, (set, frozenset)):
    return sorted(o)
  if isinstance(o, bytes):
    return o.hex()
  if hasattr(o, "__int__"):
    return int(o)
  raise TypeError("not serialisable: %r" % type(o))


def digest(obj):
  return hashlib.sha256(canon(obj).encode()).hexdigest()


# ----------------------------------------------------------------------------
# child processes (fork), pipe protocol, watchdog
# ----------------------------------------------------------------------------


def _write_all(fd, data):
  view = memoryview(data)
  while view:
    n = os.write(fd, view)
    view = view[n:]


def run_in_child(fn, args=(), timeout=600.0, what="child"):
  """Forks, runs fn(*args) in the child, returns its (picklable) result.

  The child is a fork of the calling process, so it inherits the imported
  library in whatever state the caller holds it (callers keep it pristine).
  Raises HarnessError on timeout, crash or an exception escaping fn.
  """
  rfd, wfd = os.pipe()
  sys.stdout.flush()
  sys.stderr.flush()
  pid = os.fork()
  if pid == 0:
    code = 0
    try:
      os.close(rfd)
      try:
        faulthandler.dump_traceback_later(max(1.0, timeout - 2.0), exit=False)
      except Exception:  # pylint: disable=broad-except
        pass
      try:
        res = ("ok", fn(*args))
      except BaseException as ex:  # pylint: disable=broad-except
        res = ("exc", "%s: %s\n%s" % (type(ex).__name__, ex,
                                       traceback.format_exc()))
      try:
        data = pickle.dumps(res, protocol=4)
      except Exception as ex:  # pylint: disable=broad-except
        data = pickle.dumps(("exc", "unpicklable result: %r" % (ex,)))
      _write_all(wfd, struct.pack("<Q", len(data)) + data)
      os.close(wfd)
    except BaseException:  # pylint: disable=broad-except
      code = 3
    finally:
      os._exit(code)
  os.close(wfd)
  deadline = time.monotonic() + timeout
  buf = bytearray()
  need = None
  try:
    while True:
      left = deadline - time.monotonic()
      if left <= 0:
        raise HarnessError("%s timed out after %.0fs" % (what, timeout))
      r, _, _ = select.select([rfd], [], [], min(left, 5.0))
      if not r:
        continue
      chunk = os.read(rfd, 1 << 20)
      if not chunk:
        break
      buf += chunk
      if need is None and len(buf) >= 8:
        need = struct.unpack("<Q", bytes(buf[:8]))[0]
      if need is not None and len(buf) >= 8 + need:
        break
  except HarnessError:
    try:
      os.kill(pid, signal.SIGKILL)
    except OSError:
      pass
    os.waitpid(pid, 0)
    os.close(rfd)
    raise
  os.close(rfd)
  _, status = os.waitpid(pid, 0)
  if need is None or len(buf) < 8 + need:
    raise HarnessError("%s died (status %d) before answering" % (what, status))
  kind, payload = pickle.loads(bytes(buf[8:8 + need]))
  if kind != "ok":
    raise HarnessError("%s raised: %s" % (what, payload))
  return payload


# ----------------------------------------------------------------------------
# replay files
# ----------------------------------------------------------------------------


def write_replay(prop, seed, run_index, payload, suffix=""):
  os.makedirs(REPLAY_DIR, exist_ok=True)
  name = "%s-%d-%d%s.json" % (prop, int(seed), int(run_index), suffix)
  path = os.path.join(REPLAY_DIR, name)
  tmp = path + ".tmp"
  with open(tmp, "w") as fh:
    json.dump(payload, fh, sort_keys=True, indent=1, default=_json_default)
  os.replace(tmp, path)
  return path


def read_replay(path):
  with open(path) as fh:
    return json.load(fh)


# ----------------------------------------------------------------------------
# known findings
# ----------------------------------------------------------------------------


def load_known(path=KNOWN_FILE):
  """Parses KNOWN_FINDINGS.txt.

  Lines:  known: property=<id> id=<Fk> match=<predicate> <free text>
          fixed: property=<id> <commit> <free text>       (suppresses nothing)
  """
  known = []
  if not os.path.exists(path):
    return known
  with open(path) as fh:
    for line in fh:
      line = line.strip()
      if not line or line.startswith("#"):
        continue
      if line.startswith("known:"):
        fields = dict(
            kv.split("=", 1) for kv in line[6:].split() if "=" in kv)
        text = line
        known.append({"property": fields.get("property"),
                      "id": fields.get("id"),
                      "match": fields.get("match"),
                      "text": text})
  return known


def known_for(known, prop, predicate):
  for k in known:
    if k["property"] == prop and k["match"] == predicate:
      return k
  return None


# ----------------------------------------------------------------------------
# evidence
# ----------------------------------------------------------------------------


def write_evidence(prop, tier, seed, coverage, assumptions, wall_s, violations,
                   level="exploration"):
  os.makedirs(EVIDENCE_DIR, exist_ok=True)
  doc = {
      "property_id": prop,
      "tier": tier,
      "seed": int(seed),
      "level": level,
      "coverage": coverage,
      "assumptions": assumptions,
      "wall_s": round(float(wall_s), 2),
      "violations": int(violations),
  }
  path = os.path.join(EVIDENCE_DIR, "%s.json" % prop)
  tmp = path + ".tmp"
  with open(tmp, "w") as fh:
    json.dump(doc, fh, sort_keys=True, indent=1, default=_json_default)
  os.replace(tmp, path)
  return path
