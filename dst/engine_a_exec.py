"""Engine A, execution side: runs a history inside SUBJECT / FRESH children.

Everything here executes in a forked child whose library state (S1 check
registry, S2 curve caches) starts pristine.
"""

import time as _real_time

from dst import artifacts
from dst import core
from dst import seams

RES_PATH = "lib/data/"
DENY_FILES = {1024: RES_PATH + "weak_keylist.RSA-1024.dat",
              2048: RES_PATH + "weak_keylist.RSA-2048.dat",
              4096: RES_PATH + "weak_keylist.RSA-4096.dat"}


def snap(test_info):
  return {"weak": bool(test_info.weak),
          "ver": str(test_info.paranoid_lib_version),
          "entries": [[e.test_name, bool(e.result), int(e.severity)]
                      for e in test_info.test_results],
          "infos": [[a.info_name, a.value] for a in test_info.attached_info]}


def apply_annotation(test_info, ann):
  from paranoid_crypto import paranoid_pb2
  test_info.Clear()
  test_info.weak = bool(ann["weak"])
  test_info.paranoid_lib_version = ann["ver"]
  for name, res, sev in ann["entries"]:
    test_info.test_results.append(paranoid_pb2.TestResultsEntry(
        test_name=name, result=bool(res), severity=int(sev)))
  for name, value in ann["infos"]:
    a = test_info.attached_info.add()
    a.info_name = name
    a.value = value


# ----------------------------------------------------------------------------
# environment of one simulated process lifetime
# ----------------------------------------------------------------------------


class FaultyStorage:
  """Built lazily as a storage.Storage subclass (needs the library)."""


def make_storage(spec, counters):
  """A documented-extension-point Storage with scripted content / faults.

  spec: {"unseeded": {size: [hex...]}, "deny": [str...], "raise_at": j|None,
         "keypair": "default"|"empty"}
  """
  from paranoid_crypto.lib.data import data_pb2
  from paranoid_crypto.lib.data import default_storage
  from paranoid_crypto.lib.data import storage

  default = default_storage.DefaultStorage()

  class SimStorage(storage.Storage):

    def GetUnseededRands(self, size):
      counters["unseeded_calls"] = counters.get("unseeded_calls", 0) + 1
      j = spec.get("raise_at")
      if j is not None and counters.get("armed") and \
          counters["unseeded_calls"] - counters.get("armed_at", 0) == j:
        counters["fired"] = counters.get("fired", 0) + 1
        raise IOError("simulated storage failure in GetUnseededRands")
      extra = spec.get("unseeded", {}).get(str(size))
      base = default.GetUnseededRands(size)
      if extra:
        return frozenset(base) | frozenset(int(h, 16) for h in extra)
      return base

    def _ctor_fault(self, which):
      if spec.get("ctor_fail") == which and counters.get("armed"):
        counters["fired"] = counters.get("fired", 0) + 1
        raise IOError("simulated storage failure in %s" % which)

    def GetKeypairData(self):
      self._ctor_fault("keypair")
      if spec.get("keypair") == "empty":
        return data_pb2.KeypairData()
      return default.GetKeypairData()

    def GetOpensslDenylist(self):
      self._ctor_fault("deny")
      return set(spec.get("deny", []))

  return SimStorage()


class Env:
  """Seams + pool + check-object resolution for one process lifetime."""

  def __init__(self, plan):
    self.plan = plan
    knobs = plan.get("knobs", {})
    self.clock = seams.SimClock(knobs.get("clock_seed", 0))
    seams.install_clock(self.clock)
    overlay = {}
    for path, text in knobs.get("denylist", {}).items():
      overlay[path] = text.encode()
    self.res = seams.ResourceSeam(overlay)
    self.res.install()
    self.storage_counters = {}
    self.alloc = seams.AllocFault()
    if plan["kind"] in ("ec", "ecdsa"):
      self.alloc.install()
    self.callfault = None
    self.reimport_failed = False
    self.armed = None
    self.constructed = {}
    self._set_knobs(knobs)

  def _set_knobs(self, knobs):
    md = knobs.get("max_diff")
    if md is not None:
      from paranoid_crypto.lib import ec_aggregate_checks
      ec_aggregate_checks.CheckECKeySmallDifference.__init__.__defaults__ = (
          int(md),)

  # -- check objects ---------------------------------------------------------

  def getter(self, kind, which):
    from paranoid_crypto.lib import paranoid
    table = {
        ("rsa", "all"): paranoid.GetRSAAllChecks,
        ("rsa", "singles"): paranoid.GetRSASingleChecks,
        ("rsa", "aggregates"): paranoid.GetRSAAggregateChecks,
        ("ec", "all"): paranoid.GetECAllChecks,
        ("ec", "singles"): paranoid.GetECSingleChecks,
        ("ec", "aggregates"): paranoid.GetECAggregateChecks,
        ("ecdsa", "all"): paranoid.GetECDSAAllChecks,
    }
    return table[(kind, which)]

  def check_object(self, kind, spec):
    """spec: {"name", "how": registry|construct, "via": all|singles|aggregates,
    "params": {...}, "slot": int}"""
    if spec["how"] == "registry":
      return self.getter(kind, spec.get("via", "all"))()[spec["name"]]
    key = core.canon(spec)
    if key in self.constructed:
      return self.constructed[key]
    cls = find_check_class(spec["name"])
    params = dict(spec.get("params") or {})
    if "storage" in params:
      params["paranoid_storage"] = make_storage(params.pop("storage"),
                                                self.storage_counters)
    obj = cls(**params)
    self.constructed[key] = obj
    return obj


def find_check_class(name):
  from paranoid_crypto.lib import ec_aggregate_checks
  from paranoid_crypto.lib import ec_single_checks
  from paranoid_crypto.lib import ecdsa_sig_checks
  from paranoid_crypto.lib import rsa_aggregate_checks
  from paranoid_crypto.lib import rsa_single_checks
  for mod in (rsa_single_checks, rsa_aggregate_checks, ec_single_checks,
              ec_aggregate_checks, ecdsa_sig_checks):
    if hasattr(mod, name):
      return getattr(mod, name)
  raise core.HarnessError("unknown check class %s" % name)


def all_entry(kind):
  from paranoid_crypto.lib import paranoid
  return {"rsa": paranoid.CheckAllRSA, "ec": paranoid.CheckAllEC,
          "ecdsa": paranoid.CheckAllECDSASigs}[kind]


# ----------------------------------------------------------------------------
# probes of process-global state
# ----------------------------------------------------------------------------


def state_probe():
  from paranoid_crypto.lib import ec_util
  from paranoid_crypto.lib import paranoid
  reg = {k: len(v) for k, v in paranoid._check_factory.items() if v}  # pylint: disable=protected-access
  tables = {}
  for cid, c in ec_util.CURVE_FACTORY.items():
    if c is not None and (c._table_size or c._cache):  # pylint: disable=protected-access
      tables[int(cid)] = [int(c._table_size), len(c._cache)]  # pylint: disable=protected-access
  return {"registry": reg, "tables": tables}


# ----------------------------------------------------------------------------
# one call, recorded
# ----------------------------------------------------------------------------


class CallTimeout(Exception):
  """A library call did not return within the per-call watchdog."""


_CALL_TIMEOUT = [0]


def _alarm(signum, frame):
  raise CallTimeout("call did not return within %d s" % _CALL_TIMEOUT[0])


def _call(fn, *args):
  import signal
  limit = _CALL_TIMEOUT[0]
  if limit:
    signal.signal(signal.SIGALRM, _alarm)
    signal.alarm(limit)
  try:
    try:
      ret = fn(*args)
    finally:
      if limit:
        signal.alarm(0)
    return {"type": type(ret).__name__,
            "val": bool(ret) if isinstance(ret, bool) else repr(ret)[:80]}
  except Exception as ex:  # pylint: disable=broad-except
    import traceback
    tb = traceback.extract_tb(ex.__traceback__)
    where = ["%s:%d:%s" % (f.filename.split("/")[-1], f.lineno, f.name)
             for f in tb[-4:]]
    return {"exc": type(ex).__name__, "msg": str(ex)[:200], "where": where}


def run_call(env, kind, op, pbs):
  """Executes the callable of a check / check_all op on the given protobufs."""
  if op["op"] == "check_all":
    fn = all_entry(kind)
    return _call(fn, pbs, op.get("log_level", 0))
  try:
    obj = env.check_object(kind, op["check"])
  except Exception as ex:  # pylint: disable=broad-except
    stage = "registry" if op["check"]["how"] == "registry" else "constructor"
    return {"exc": type(ex).__name__, "msg": "%s of %s: %s" %
            (stage, op["check"]["name"], str(ex)[:160]), "where": [stage],
            "stage": stage}
  return _call(obj.Check, pbs)


def issuer_oracle(batch_arts):
  """In-process oracle for CheckIssuerKey: CheckAllEC on the distinct issuer
  keys (distinct by curve id AND coordinates) of the batch."""
  from paranoid_crypto import paranoid_pb2
  from paranoid_crypto.lib import paranoid
  from paranoid_crypto.lib import util
  keys = {}
  for a in batch_arts:
    ident = (a["curve"], a["ix"], a["iy"])
    if ident not in keys:
      pb = paranoid_pb2.ECKey()
      pb.ec_info.curve_type = a["curve"]
      pb.ec_info.x = bytes.fromhex(a["ix"])
      pb.ec_info.y = bytes.fromhex(a["iy"])
      keys[ident] = pb
  res = _call(paranoid.CheckAllEC, list(keys.values()))
  out = {}
  for ident, pb in keys.items():
    sev = util.GetHighestSeverity(pb.test_info)
    out["%d:%s:%s" % ident] = {"weak": bool(pb.test_info.weak),
                              "sev": None if sev is None else int(sev),
                              "entries": snap(pb.test_info)["entries"]}
  return {"ret": res, "keys": out}


# ----------------------------------------------------------------------------
# SUBJECT: executes ops[start:] until a restart op or the end
# ----------------------------------------------------------------------------


def subject_segment(plan, start, pool_bytes):
  _CALL_TIMEOUT[0] = int(plan.get("call_timeout", 420))
  env = Env(plan)
  kind = plan["kind"]
  pool_arts = plan["pool"]
  pool = [artifacts.to_pb(a) for a in pool_arts]
  if pool_bytes is not None:
    for pb, data in zip(pool, pool_bytes):
      pb.ParseFromString(data)
  elif plan.get("initial_annotations"):
    for idx, ann in plan["initial_annotations"].items():
      apply_annotation(pool[int(idx)].test_info, ann)
  events = []
  timing = []
  ops = plan["ops"]
  i = start
  nxt = None
  while i < len(ops):
    op = ops[i]
    name = op["op"]
    ev = {"i": i, "op": name}
    t_op = _real_time.time()
    if name in ("check", "check_all", "bad_call"):
      batch = op["batch"]
      arts = [pool_arts[j] for j in batch] if name != "bad_call" else \
          op["arts"]
      fired0 = (len(env.res.fired) + env.storage_counters.get("fired", 0) +
                env.alloc.fired +
                (env.callfault.fired if env.callfault else 0))
      ev["armed"] = env.armed is not None
      ev["state_before"] = state_probe()
      if name == "bad_call":
        pbs = [artifacts.to_pb(a) for a in arts]
        ev["ret"] = run_call(env, kind, op["call"], pbs)
        ev["post_bad"] = [snap(pb.test_info) for pb in pbs]
      else:
        if op.get("no_clean"):
          ev["ret_clean"], ev["V"] = None, None
        else:
          clean = [artifacts.to_pb(a) for a in arts]
          ev["ret_clean"] = run_call(env, kind, op, clean)
          ev["V"] = [snap(pb.test_info) for pb in clean]
        real = [pool[j] for j in batch]
        ev["pre"] = [snap(pb.test_info) for pb in real]
        if ev["ret_clean"] and ev["ret_clean"].get("exc") == "CallTimeout":
          # the call already hung once on clean copies: do not hang again
          ev["ret"] = dict(ev["ret_clean"])
        else:
          ev["ret"] = run_call(env, kind, op, real)
        ev["post"] = [snap(pb.test_info) for pb in real]
        if kind == "ecdsa" and op.get("issuer_oracle"):
          ev["issuer_oracle"] = issuer_oracle(arts)
      ev["fired"] = (len(env.res.fired) + env.storage_counters.get("fired", 0)
                     + env.alloc.fired +
                     (env.callfault.fired if env.callfault else 0) - fired0)
      if env.callfault and env.callfault.where and ev["fired"]:
        ev["fault_where"] = env.callfault.where
      ev["state_after"] = state_probe()
      hung = [x for x in (ev.get("ret_clean"), ev.get("ret"))
              if x and x.get("exc") == "CallTimeout"]
      if hung:
        # interrupted in the middle of a call: continue in a new process
        ev["hung"] = True
        events.append(ev)
        timing.append([i, name, round(_real_time.time() - t_op, 2)])
        nxt = i + 1 if i + 1 < len(ops) else None
        break
    elif name == "clone":
      for j in op["batch"]:
        pool[j].test_info.Clear()
    elif name == "preannotate":
      apply_annotation(pool[op["idx"]].test_info, op["ann"])
    elif name == "persist_reload":
      for j, pb in enumerate(pool):
        data = pb.SerializeToString()
        fresh_pb = type(pb)()
        fresh_pb.ParseFromString(data)
        pool[j] = fresh_pb
    elif name == "restart":
      nxt = i + 1
      events.append(ev)
      break
    elif name == "seam_fault":
      if op["kind"] in ("open_oserror", "open_torn"):
        env.res.arm({op["k"]: "oserror" if op["kind"] == "open_oserror"
                     else "torn"})
      elif op["kind"] == "alloc_fail":
        env.alloc.arm(op["method"], op["k"])
      elif op["kind"] == "call_fail":
        if env.callfault is None:
          env.callfault = seams.CallFault()
        env.callfault.arm(op["modules"], op["k"])
      elif op["kind"] == "storage_raise":
        env.storage_counters["armed"] = True
        env.storage_counters["armed_at"] = env.storage_counters.get(
            "unseeded_calls", 0)
      env.armed = op["kind"]
    elif name == "heal":
      env.res.heal()
      env.alloc.heal()
      if env.callfault:
        env.callfault.heal()
      env.storage_counters["armed"] = False
      env.armed = None
    elif name == "reimport_version":
      import importlib
      from paranoid_crypto import version as _version
      if not (op.get("only_if_failed") and not env.reimport_failed):
        try:
          importlib.reload(_version)
          env.reimport_failed = False
          ev["reimport"] = "ok"
        except Exception as ex:  # pylint: disable=broad-except
          env.reimport_failed = True
          ev["reimport"] = "raised %s" % type(ex).__name__
    elif name == "curve_op":
      ev["curve"] = run_curve_op(op)
      ev["state_after"] = state_probe()
    else:
      raise core.HarnessError("unknown op %r" % name)
    events.append(ev)
    timing.append([i, name, round(_real_time.time() - t_op, 2)])
    i += 1
  return {"events": events, "timing": timing,
          "pool": [pb.SerializeToString() for pb in pool],
          "pool_snap": [snap(pb.test_info) for pb in pool],
          "next": nxt, "clock": env.clock.stats(),
          "faults_fired": [list(f) for f in env.res.fired],
          "storage_fired": env.storage_counters.get("fired", 0),
          "alloc_fired": env.alloc.fired,
          "call_fired": env.callfault.fired if env.callfault else 0,
          "resource_opens": env.res.total_opens,
          "log_counts": seams.log_counts()}


def run_curve_op(op):
  """Engine-B style op on a named curve singleton (shares S2 with the checks)."""
  from paranoid_crypto.lib import ec_util
  curve = ec_util.CURVE_FACTORY[op["curve"]]
  pts = [(artifacts.mpz(int(x, 16)), artifacts.mpz(int(y, 16)))
         for x, y in op["points"]]
  if op["fn"] == "BatchDL":
    return _call_list(curve.BatchDL, pts, op["n"])
  if op["fn"] == "BatchDLOfDifferences":
    return _call_list(curve.BatchDLOfDifferences, pts, None, op["max_diff"])
  if op["fn"] == "BatchMultiplyG":
    return _call_list(curve.BatchMultiplyG, [int(s, 16) for s in op["scalars"]])
  raise core.HarnessError("unknown curve fn %r" % op["fn"])


def _call_list(fn, *args):
  try:
    res = fn(*args)
    out = []
    for x in res:
      if x is None or isinstance(x, str):
        out.append(x)
      elif isinstance(x, tuple):
        out.append([None if c is None else "%x" % int(c) for c in x])
      else:
        out.append(int(x))
    return {"res": out}
  except Exception as ex:  # pylint: disable=broad-except
    return {"exc": type(ex).__name__, "msg": str(ex)[:200]}


# ----------------------------------------------------------------------------
# FRESH: one operation on clean artifacts in a pristine process
# ----------------------------------------------------------------------------


def fresh_query(plan, op, arts):
  """Runs op (check / check_all) on clean copies of arts; returns V."""
  _CALL_TIMEOUT[0] = int(plan.get("call_timeout", 420))
  env = Env(plan)
  kind = plan["kind"]
  clean = [artifacts.to_pb(a) for a in arts]
  ret = run_call(env, kind, op, clean)
  return {"ret": ret, "V": [snap(pb.test_info) for pb in clean]}


def fresh_queries(plan, queries):
  """Several independent queries, each in its own pristine child."""
  out = []
  for q in queries:
    out.append(core.run_in_child(
        fresh_query, (plan, q["op"], q["arts"]), q.get("timeout", 600.0),
        "engineA fresh"))
  return out
