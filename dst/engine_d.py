"""Engine D: histories of bundled-generator calls under simulated entropy (C20).

One run = one process lifetime of a host application that interleaves
GetRng(name).RandomBits(n, seed=...) calls over all registry names with
disturbances of the process-global PRNG state (random.seed, random.random,
numpy.random.seed) and re-keying of the simulated os.urandom.
"""

import random

from dst import core
from dst import seams

PROPERTY = "C20"

# Generators that discard the seed by documented design (finding F7).
SEEDLESS_PREFIXES = ("urandom", "subsetsum")
# Generators whose *unseeded* path bypasses rng.os (C-level seeding).
UNSEEDED_UNCONTROLLED = ("mt19937", "pcg64", "philox", "sfc64")

# Independent copy of the LCG multiplier table (L'Ecuyer, "Tables of linear
# congruential generators of different sizes and good lattice structure"),
# keyed by state size in bits.
_LCG_MULT = {
    32: 2891336453,
    40: 330169576829,
    48: 181465474592829,
    60: 454339144066433781,
    63: 9219741426499971445,
    64: 2862933555777941757,
    96: 75564983892026345434470042133,
    128: 47026247687942121848144207491837418733,
    256: 92535799708728563004421432684894516311017097014017594320373447727772634342485,
}
# The pinned table additionally has 34/35/36-bit entries which no bundled
# instance selects (state sizes are 32,40,56,64,128,256 -> 32,40,60,64,128,256).
_TRUNC_SIZES = {"trunclcg16": 16, "trunclcg20": 20, "trunclcg28": 28,
                "trunclcg32": 32, "trunclcg64": 64, "trunclcg128": 128}


def _trunc_mult(output_bits):
  for size in sorted(_LCG_MULT):
    if size >= 2 * output_bits:
      return _LCG_MULT[size]
  return _LCG_MULT[256]


def model_trunclcg(output_bits, nbytes, seed):
  """First nbytes bytes of a truncated LCG emitting the upper half of its
  state, each output stored little-endian in ceil(output_bits/8) bytes."""
  a = _trunc_mult(output_bits)
  mod = 1 << (2 * output_bits)
  obytes = (output_bits + 7) // 8
  out = bytearray()
  state = seed
  while len(out) < nbytes:
    state = (state * a + 1) % mod
    out += (state >> output_bits).to_bytes(obytes, "little")
  return int.from_bytes(out[:nbytes], "little")


def model_java_biginteger(num_bits, seed):
  """new BigInteger(num_bits, new java.util.Random(seed)) transcribed from the
  JDK sources (Random.next/nextInt/nextBytes, BigInteger.randomBits)."""
  mask = (1 << 48) - 1
  state = (seed ^ 0x5DEECE66D) & mask
  num_bytes = (num_bits + 7) // 8
  buf = bytearray(num_bytes)
  i = 0
  while i < num_bytes:
    state = (state * 0x5DEECE66D + 0xB) & mask
    rnd = state >> 16          # next(32) as unsigned 32-bit pattern
    k = min(num_bytes - i, 4)
    while k > 0:
      buf[i] = rnd & 0xFF
      rnd >>= 8
      i += 1
      k -= 1
  if num_bytes:
    excess = 8 * num_bytes - num_bits
    buf[0] &= (1 << (8 - excess)) - 1
  return int.from_bytes(buf, "big")


# ----------------------------------------------------------------------------
# plan generation
# ----------------------------------------------------------------------------


def _pick_n(r):
  u = r.random()
  if u < 0.55:
    return r.randint(1, 2048)
  if u < 0.70:
    return r.choice([1, 2, 7, 8, 9, 15, 16, 17, 31, 32, 33, 63, 64, 65, 127,
                     128, 129, 255, 256, 257, 511, 512, 513, 1023, 1024, 1025,
                     2047, 2048])
  # larger n at every residue modulo 64 (hence modulo 8 and 32)
  base = 64 * r.randint(33, 400)
  return base + r.randrange(64)


def _pick_seed(r, seed_pool):
  u = r.random()
  if seed_pool and u < 0.45:
    return r.choice(seed_pool)
  if u < 0.60:
    s = r.randint(1, 1000)
  elif u < 0.75:
    s = r.getrandbits(48) | 1
  elif u < 0.85:
    s = (1 << 64) + r.getrandbits(70)
  elif u < 0.93:
    s = (1 << 160) + r.getrandbits(200)
  else:
    s = r.choice([1, 2, 2**31 - 1, 2**31 - 2, 2**32, 2**48, 2**64 - 1, 2**64,
                  2**128, 2**160])
  seed_pool.append(s)
  return s


def registry_names():
  from paranoid_crypto.lib.randomness_tests import rng
  return list(rng.RngNames())


def gen_plan(run_seed, tier="quick", profile="default", focus=None,
             names=None):
  names = names or registry_names()
  r = random.Random(run_seed)
  length = r.randint(40, 160) if tier == "quick" else r.randint(80, 400)
  # swarm: each run favours a random subset of generators
  favoured = r.sample(names, r.randint(3, max(3, len(names) // 2)))
  ops = []
  seed_pool = []
  triples = []
  for _ in range(length):
    u = r.random()
    if u < 0.62:
      name = r.choice(favoured) if r.random() < 0.7 else r.choice(names)
      if triples and r.random() < 0.30:
        name, n, seed = r.choice(triples)     # repeat an earlier seeded call
      else:
        n = _pick_n(r)
        if name == "lcgnist" and n > 4096:
          n = 1 + n % 4096
        seed = None if r.random() < 0.2 else _pick_seed(r, seed_pool)
        if seed is not None:
          triples.append((name, n, seed))
      ops.append({"op": "rng", "name": name, "n": n, "seed": seed})
      if seed is not None and r.random() < 0.12:
        # directly afterwards: the same generator and seed, another length
        # (anything remembered from the previous call must not leak)
        n2 = r.choice([max(1, n - r.randint(1, 70)), n + r.randint(1, 70),
                       max(1, n // 2), _pick_n(r)])
        if name == "lcgnist" and n2 > 4096:
          n2 = 1 + n2 % 4096
        ops.append({"op": "rng", "name": name, "n": n2, "seed": seed})
        triples.append((name, n2, seed))
      if seed is not None and r.random() < 0.15:
        # the same request to a freshly constructed instance of the generator
        ops.append({"op": "rng", "name": name, "n": n, "seed": seed,
                    "new_instance": True})
    elif u < 0.72:
      # surrogate purity for the seed-ignoring generators / entropy purity
      name = r.choice(names)
      n = _pick_n(r)
      if name == "lcgnist" and n > 4096:
        n = 1 + n % 4096
      ops.append({"op": "rng_pair", "name": name, "n": n,
                  "key": r.getrandbits(32)})
    elif u < 0.80:
      ops.append({"op": "host", "kind": "random.seed",
                  "arg": r.getrandbits(r.choice([8, 32, 64, 200]))})
    elif u < 0.86:
      ops.append({"op": "host", "kind": "random.random", "arg": r.randint(1, 5)})
    elif u < 0.92:
      ops.append({"op": "host", "kind": "numpy.seed",
                  "arg": r.getrandbits(32)})
    else:
      ops.append({"op": "host", "kind": "rekey", "arg": r.getrandbits(32)})
  # directed steps: stream prefixes for the modelled generators
  for _ in range(r.randint(1, 4)):
    name = r.choice(["java"] + sorted(_TRUNC_SIZES))
    seed = _pick_seed(r, seed_pool)
    n1 = 8 * r.randint(1, 120)
    n2 = n1 + 8 * r.randint(1, 120)
    pos = r.randint(0, len(ops))
    ops.insert(pos, {"op": "rng", "name": name, "n": n2, "seed": seed})
    ops.insert(r.randint(0, len(ops)), {"op": "rng", "name": name, "n": n1,
                                        "seed": seed})
  return {"engine": "D", "property": PROPERTY, "profile": profile,
          "entropy_key": r.getrandbits(32), "ops": ops}


# ----------------------------------------------------------------------------
# execution (runs in a forked child)
# ----------------------------------------------------------------------------


def _new_instance(inst):
  """A freshly constructed generator with the parameters of `inst`."""
  cls = type(inst)
  name = cls.__name__
  if name == "TruncLcgRand":
    return cls(inst.output_size)
  if name == "Mwc":
    return cls(inst.a, inst.b)
  if name == "Lehmer":
    return cls(inst.a, inst.mod, inst.bits)
  if name == "LcgNist":
    return cls(inst.a)
  if name == "SubsetSum":
    return cls(inst.bits, inst.n)
  return cls()


def _exec_ops(ops, entropy_key, only_seeded=False):
  """Executes a history; returns the event list."""
  import numpy
  from paranoid_crypto.lib.randomness_tests import rng
  ent = seams.SimEntropy(entropy_key)
  seams.install_entropy(ent)
  events = []
  for op in ops:
    kind = op["op"]
    if kind == "rng":
      if only_seeded and op["seed"] is None:
        events.append(None)
        continue
      c0, b0 = ent.calls, ent.nbytes
      try:
        gen = rng.GetRng(op["name"])
        if op.get("new_instance"):
          gen = _new_instance(gen)
        v = gen.RandomBits(op["n"], seed=op["seed"])
        ev = {"v": v if isinstance(v, int) and not isinstance(v, bool)
              else repr(type(v)), "ok": True}
        if op["seed"] is None and op["name"] in UNSEEDED_UNCONTROLLED:
          # seeded in C from the real os.urandom: keep only the verdict, the
          # value itself must not enter the (replayable) event log
          isint = isinstance(v, int) and not isinstance(v, bool)
          ev = {"ok": True, "uncontrolled": True, "is_int": isint,
                "in_range": bool(isint and 0 <= v < (1 << op["n"]))}
      except Exception as ex:  # pylint: disable=broad-except
        ev = {"ok": False, "exc": "%s: %s" % (type(ex).__name__, ex)}
      ev["ecalls"] = ent.calls - c0
      ev["ebytes"] = ent.nbytes - b0
      events.append(ev)
    elif kind == "rng_pair":
      vals = []
      draws = []
      for _ in range(2):
        ent.rekey(op["key"])
        c0 = ent.calls
        try:
          vals.append(rng.GetRng(op["name"]).RandomBits(op["n"]))
        except Exception as ex:  # pylint: disable=broad-except
          vals.append("%s: %s" % (type(ex).__name__, ex))
        draws.append(ent.calls - c0)
      if op["name"] in UNSEEDED_UNCONTROLLED:
        ok = [isinstance(v, int) and not isinstance(v, bool) and
              0 <= v < (1 << op["n"]) for v in vals]
        events.append({"uncontrolled": True, "in_range": ok, "draws": draws})
      else:
        events.append({"vals": vals, "draws": draws})
    elif kind == "host":
      if op["kind"] == "random.seed":
        random.seed(op["arg"])
      elif op["kind"] == "random.random":
        for _ in range(op["arg"]):
          random.random()
      elif op["kind"] == "numpy.seed":
        numpy.random.seed(op["arg"])
      elif op["kind"] == "rekey":
        ent.rekey(op["arg"])
      events.append({"host": op["kind"]})
    else:
      raise core.HarnessError("unknown op %r" % (kind,))
  return events


def _subject(plan):
  return _exec_ops(plan["ops"], plan["entropy_key"])


def _fresh(plan):
  """Each distinct seeded triple once, in sorted order, other entropy key."""
  triples = sorted({(op["name"], op["n"], op["seed"]) for op in plan["ops"]
                    if op["op"] == "rng" and op["seed"] is not None})
  ops = [{"op": "rng", "name": a, "n": b, "seed": c} for a, b, c in triples]
  evs = _exec_ops(ops, plan["entropy_key"] ^ 0x5A5A5A5A)
  return [(t, ev) for t, ev in zip(triples, evs)]


def execute(plan, timeout=300.0):
  """Runs subject + FRESH oracle child; returns (events, violations, stats)."""
  events = core.run_in_child(_subject, (plan,), timeout, "engineD subject")
  fresh = core.run_in_child(_fresh, (plan,), timeout, "engineD fresh")
  return core.run_in_child(judge, (plan, events, fresh), timeout,
                           "engineD judge")


# ----------------------------------------------------------------------------
# oracles
# ----------------------------------------------------------------------------


def _seedless(name):
  return name.startswith(SEEDLESS_PREFIXES)


def judge(plan, events, fresh):
  viol = []
  stats = {"rng_calls": 0, "seeded_calls": 0, "unseeded_calls": 0,
           "pair_checks": 0, "host_ops": 0, "model_checks": 0,
           "fresh_compares": 0, "history_compares": 0, "known_F6_hits": 0,
           "known_F7_hits": 0, "states": set(), "entropy_bytes": 0}
  fresh_map = {tuple(t): ev for t, ev in fresh}
  seen = {}
  pos_class = lambda i: 0 if i == 0 else (1 if i < 10 else 2)
  for i, (op, ev) in enumerate(zip(plan["ops"], events)):
    kind = op["op"]
    if kind == "host":
      stats["host_ops"] += 1
      continue
    name, n = op["name"], op["n"]
    if kind == "rng_pair":
      stats["pair_checks"] += 1
      if ev.get("uncontrolled"):
        if not all(ev["in_range"]):
          viol.append(_v("range", i, name, "unseeded result out of range or "
                         "not an int", None, {"n": n}))
        continue
      v1, v2 = ev["vals"]
      for v in (v1, v2):
        _range_check(viol, i, name, n, v, stats)
      if name not in UNSEEDED_UNCONTROLLED and v1 != v2:
        viol.append(_v("purity_entropy_function", i, name,
                       "same entropy stream, two results", None,
                       {"n": n, "v1": _hx(v1), "v2": _hx(v2)}))
      continue
    seed = op["seed"]
    stats["rng_calls"] += 1
    stats["entropy_bytes"] += ev["ebytes"]
    seed_class = ("none" if seed is None else
                  "small" if seed < 2**31 else
                  "w64" if seed < 2**64 else
                  "w160" if seed < 2**160 else "huge")
    stats["states"].add((name, n % 64, seed_class, pos_class(i)))
    if not ev["ok"]:
      viol.append(_v("raises", i, name, ev["exc"], None, {"n": n}))
      continue
    if ev.get("uncontrolled"):
      stats["unseeded_calls"] += 1
      if not (ev["is_int"] and ev["in_range"]):
        viol.append(_v("range", i, name, "unseeded result out of range or not "
                       "an int", None, {"n": n}))
      continue
    v = ev["v"]
    _range_check(viol, i, name, n, v, stats)
    if seed is None:
      stats["unseeded_calls"] += 1
      continue
    stats["seeded_calls"] += 1
    # purity: no entropy drawn by a seeded call
    if ev["ecalls"]:
      known = "seed_ignored_by_design" if _seedless(name) else None
      if known:
        stats["known_F7_hits"] += 1
      viol.append(_v("purity_entropy_drawn", i, name,
                     "seeded call drew %d bytes of entropy" % ev["ebytes"],
                     known, {"n": n, "seed": seed}))
      continue  # value legitimately differs; surrogate is rng_pair
    key = (name, n, seed)
    if key in seen:
      stats["history_compares"] += 1
      if seen[key][1] != v:
        viol.append(_v("purity_history", i, name,
                       "same (generator, n, seed), different value at steps "
                       "%d and %d" % (seen[key][0], i), None,
                       {"n": n, "seed": seed, "first": _hx(seen[key][1]),
                        "now": _hx(v)}))
    else:
      seen[key] = (i, v)
    fv = fresh_map.get(key)
    if fv is not None and fv.get("ok"):
      stats["fresh_compares"] += 1
      if fv["v"] != v:
        viol.append(_v("purity_fresh", i, name,
                       "value in history differs from fresh process", None,
                       {"n": n, "seed": seed, "fresh": _hx(fv["v"]),
                        "now": _hx(v)}))
    # stream models
    if name == "java":
      stats["model_checks"] += 1
      m = model_java_biginteger(n, seed)
      if m != v:
        viol.append(_v("stream_model", i, name,
                       "differs from java.util.Random/BigInteger model", None,
                       {"n": n, "seed": seed, "model": _hx(m), "now": _hx(v)}))
    elif name in _TRUNC_SIZES and n % 8 == 0:
      stats["model_checks"] += 1
      m = model_trunclcg(_TRUNC_SIZES[name], n // 8, seed)
      if m != v:
        viol.append(_v("stream_model", i, name,
                       "differs from truncated-LCG model", None,
                       {"n": n, "seed": seed, "model": _hx(m), "now": _hx(v)}))
  stats["states"] = sorted(stats["states"])
  stats["exhaustive_n_generators"] = 1 if plan.get("exhaustive_n") else 0
  return events, viol, stats


def _hx(v):
  return format(v, "x") if isinstance(v, int) else repr(v)


def _v(invariant, step, name, msg, known, detail):
  return {"property": PROPERTY, "invariant": invariant, "step": step,
          "key": "%s:%s" % (invariant, name), "known": known,
          "message": "%s: %s" % (name, msg), "detail": detail}


def _range_check(viol, i, name, n, v, stats):
  if isinstance(v, bool) or not isinstance(v, int):
    viol.append(_v("range", i, name, "result is not an int: %r" % (v,), None,
                   {"n": n}))
    return
  if not 0 <= v < (1 << n):
    known = None
    if name.startswith("trunclcg") and n % 8 != 0:
      known = "trunclcg_partial_byte"
      stats["known_F6_hits"] += 1
    viol.append(_v("range", i, name,
                   "result has %d bits, requested %d" % (v.bit_length(), n),
                   known, {"n": n, "value": _hx(v)}))


# ----------------------------------------------------------------------------
# minimisation: candidate plans derived from a failing plan
# ----------------------------------------------------------------------------


def with_ops(plan, ops):
  p = dict(plan)
  p["ops"] = ops
  return p


def minimise(plan, violation, deadline):
  from dst import runner

  def test(ops):
    try:
      _, viols, _ = execute(with_ops(plan, ops), timeout=120.0)
    except core.HarnessError:
      return False
    return any(v["key"] == violation["key"] for v in viols)

  ops = runner.ddmin(plan["ops"], test, deadline)
  return with_ops(plan, ops)


def sample_history(plan, limit=10):
  return {"engine": "D", "ops": [dict(op) for op in plan["ops"][:limit]],
          "ops_total": len(plan["ops"])}


def directed_plans(prop, profile):
  """One directed scenario per listed known finding (deterministic lines)."""
  f6 = {"engine": "D", "property": PROPERTY, "profile": profile,
        "entropy_key": 1,
        "ops": [{"op": "rng", "name": nm, "n": 63, "seed": 123456}
                for nm in sorted(_TRUNC_SIZES)]}
  f7 = {"engine": "D", "property": PROPERTY, "profile": profile,
        "entropy_key": 2,
        "ops": [{"op": "rng", "name": "urandom", "n": 64, "seed": 7},
                {"op": "rng", "name": "subsetsum256/16", "n": 256, "seed": 7},
                {"op": "rng_pair", "name": "urandom", "n": 64, "key": 5},
                {"op": "rng_pair", "name": "subsetsum256/16", "n": 256,
                 "key": 5}]}
  out = [("directed-F6", f6), ("directed-F7", f7)]
  # every n in 1..2048 for every generator of the registry (one seed each,
  # derived from the generator name): the statement's full range of n
  import hashlib
  for nm in registry_names():
    seed = int.from_bytes(hashlib.sha256(nm.encode()).digest()[:9], "big") | 1
    out.append(("exhaustive-n-" + nm, {
        "engine": "D", "property": PROPERTY, "profile": profile,
        "entropy_key": 3, "exhaustive_n": True,
        "ops": [{"op": "rng", "name": nm, "n": n, "seed": seed}
                for n in range(1, 2049)]}))
  return out


ASSUMPTIONS = [
    "os.urandom inside rng.py is the simulator's keyed stream (SimEntropy); "
    "unseeded mt19937/pcg64/philox/sfc64 seed themselves in C and are only "
    "range-checked",
    "stream models: java.util.Random + BigInteger(n, rnd) transcribed from the "
    "JDK; truncated LCG with L'Ecuyer multipliers, compared at byte-multiple n",
    "urandom/subsetsum* ignore the seed by documented design (known finding "
    "F7); for them purity is checked as a function of the entropy consumed",
]


def coverage(prop, results):
  agg = {}
  states = set()
  for r in results:
    for k, val in r["stats"].items():
      if k == "states":
        states.update(tuple(s) for s in val)
      else:
        agg[k] = agg.get(k, 0) + val
  nontrivial = {s for s in states if not (s[2] == "none" and s[3] == 0)}
  return {
      "evaluations": agg.get("rng_calls", 0) + 2 * agg.get("pair_checks", 0),
      "distinct_nontrivial": len(nontrivial),
      "rule": "engine D: one evaluation = one RandomBits call judged for range "
              "(and purity/stream model when seeded); distinct = distinct "
              "(generator, n mod 64, seed class, position class in history); "
              "trivial = an unseeded first call of a history",
      "samples": [r["sample"] for r in results[:3]],
      "counts": agg,
      "exhaustive_part": "every n in 1..2048 for %d generators (one seed "
                         "each)" % agg.get("exhaustive_n_generators", 0),
      "fault_kinds": {"entropy_rekey": "host op 'rekey'",
                      "global_prng_disturbance": agg.get("host_ops", 0)},
      "components": {"rng.py": "real", "os.urandom": "SimEntropy stub",
                     "numpy/random C seeding": "real (uncontrolled when "
                                               "seed=None)"},
  }
