"""Seeded batch runner: many short simulated runs across worker processes.

master (library imported once, pristine) -> forked pool workers (pristine)
-> per run: forked SUBJECT / FRESH children (see DESIGN 3.2).
"""

import concurrent.futures
import importlib
import multiprocessing
import os
import sys
import time
import traceback

from dst import core

ENGINES = {
    "D": "dst.engine_d",
    "A": "dst.engine_a",
    "B": "dst.engine_b",
    "C": "dst.engine_c",
}


def engine_module(name):
  return importlib.import_module(ENGINES[name])


def make_job(engine, prop, profile, tier, verif_seed, run_index, plan=None,
             label=None):
  return {"engine": engine, "property": prop, "profile": profile,
          "tier": tier, "verif_seed": int(verif_seed),
          "run_index": run_index, "plan": plan, "label": label}


def job_seed(job):
  return core.derive_seed(job["verif_seed"], job["property"], job["engine"],
                          job["profile"], job["run_index"])


def _assert_worker_pristine():
  """The process that forks SUBJECT / FRESH children must never have used a
  stateful library API itself."""
  mods = sys.modules
  par = mods.get("paranoid_crypto.lib.paranoid")
  ecu = mods.get("paranoid_crypto.lib.ec_util")
  if par is not None and any(par._check_factory.values()):  # pylint: disable=protected-access
    raise core.HarnessError("worker process polluted: check registry filled")
  if ecu is not None:
    for c in ecu.CURVE_FACTORY.values():
      if c is not None and (c._table_size or c._cache):  # pylint: disable=protected-access
        raise core.HarnessError("worker process polluted: curve cache filled")


def _gen_plan(job):
  eng = engine_module(job["engine"])
  plan = eng.gen_plan(job_seed(job), tier=job["tier"],
                      profile=job["profile"], focus=job["property"])
  plan["run_seed"] = job_seed(job)
  return plan


def do_job(job):
  """Executed in a pool worker (or inline).  Never raises."""
  t0 = time.time()
  out = {"run_index": job["run_index"], "engine": job["engine"],
         "profile": job["profile"], "label": job["label"]}
  try:
    eng = engine_module(job["engine"])
    plan = job["plan"]
    if plan is None:
      # generated in a throw-away child: generation reads library data and may
      # touch library state, and the worker that forks the SUBJECT must stay
      # pristine from the first run to the last
      plan = core.run_in_child(_gen_plan, (job,), 600.0, "plan generation")
    plan.setdefault("focus", job["property"])
    events, violations, stats = eng.execute(plan)
    out.update(ok=True, digest=core.digest(events), violations=violations,
               stats=stats, plan=plan if (violations or job.get("keep_plan"))
               else None, sample=eng.sample_history(plan))
    _assert_worker_pristine()
  except core.HarnessError as ex:
    out.update(ok=False, error="HarnessError: %s" % ex)
  except BaseException as ex:  # pylint: disable=broad-except
    out.update(ok=False, error="%s: %s\n%s" % (type(ex).__name__, ex,
                                               traceback.format_exc()))
  out["wall"] = time.time() - t0
  return out


def run_jobs(jobs, workers, budget_s, on_result=None, stop=None):
  """Runs jobs on a fork pool; stops handing out work after budget_s.

  Returns (results sorted by (engine, profile, run_index), skipped count).
  """
  results = []
  skipped = 0
  t0 = time.time()
  if workers <= 1:
    for job in jobs:
      if time.time() - t0 > budget_s or (stop and stop()):
        skipped += 1
        continue
      res = do_job(job)
      results.append(res)
      if on_result:
        on_result(res)
  else:
    ctx = multiprocessing.get_context("fork")
    sys.stdout.flush()
    sys.stderr.flush()
    with concurrent.futures.ProcessPoolExecutor(
        max_workers=workers, mp_context=ctx) as pool:
      pending = set()
      it = iter(jobs)
      exhausted = False

      def top_up():
        nonlocal exhausted, skipped
        while not exhausted and len(pending) < 2 * workers:
          if time.time() - t0 > budget_s or (stop and stop()):
            rest = sum(1 for _ in it)
            skipped += rest
            exhausted = True
            break
          try:
            job = next(it)
          except StopIteration:
            exhausted = True
            break
          pending.add(pool.submit(do_job, job))

      top_up()
      while pending:
        done, _ = concurrent.futures.wait(
            pending, timeout=30,
            return_when=concurrent.futures.FIRST_COMPLETED)
        for fut in done:
          pending.discard(fut)
          try:
            res = fut.result()
          except Exception as ex:  # pylint: disable=broad-except
            raise core.HarnessError("pool worker failed: %r" % (ex,))
          results.append(res)
          if on_result:
            on_result(res)
        if stop and stop():
          for fut in list(pending):
            if fut.cancel():
              pending.discard(fut)
              skipped += 1
        top_up()
  results.sort(key=lambda r: (r["engine"], r["profile"], str(r["label"]),
                              r["run_index"]))
  return results, skipped


def ddmin(items, test, deadline):
  """Delta debugging: a small sublist of items for which test() stays True."""
  items = list(items)
  n = 2
  while len(items) >= 2 and time.time() < deadline:
    chunk = max(1, len(items) // n)
    reduced = False
    for start in range(0, len(items), chunk):
      if time.time() >= deadline:
        break
      cand = items[:start] + items[start + chunk:]
      if cand and test(cand):
        items = cand
        n = max(n - 1, 2)
        reduced = True
        break
    if not reduced:
      if chunk == 1:
        break
      n = min(len(items), n * 2)
  return items
