"""Seeded batch runner: many short simulated runs across worker processes.

master (library imported once, pristine) -> forked pool workers (pristine)
-> per run: forked SUBJECT / FRESH children (see DESIGN 3.2).
"""

import concurrent.futures
import importlib
import multiprocessing
import os
import sys
import time
import traceback

from dst import core

ENGINES = {
    "D": "dst.engine_d",
    "A": "dst.engine_a",
    "B": "dst.engine_b",
    "C": "dst.engine_c",
}


def engine_module(name):
  return importlib.import_module(ENGINES[name])


def make_job(engine, prop, profile, tier, verif_seed, run_index, plan=None,
             label=None):
  return {"engine": engine, "property": prop, "profile": profile,
          "tier": tier, "verif_seed": int(verif_seed),
          "run_index": run_index, "plan": plan, "label": label}


def job_seed(job):
  return core.derive_seed(job["verif_seed"], job["property"], job["engine"],
                          job["profile"], job["run_index"])


def do_job(job):
  """Executed in a pool worker (or inline).  Never raises."""
  t0 = time.time()
  out = {"run_index": job["run_index"], "engine": job["engine"],
         "profile": job["profile"], "label": job["label"]}
  try:
    eng = engine_module(job["engine"])
    plan = job["plan"]
    if plan is None:
      plan = eng.gen_plan(job_seed(job), tier=job["tier"],
                          profile=job["profile"], focus=job["property"])
      plan["run_seed"] = job_seed(job)
    plan.setdefault("focus", job["property"])
    events, violations, stats = eng.execute(plan)
    out.update(ok=True, digest=core.digest(events), violations=violations,
               stats=stats, plan=plan if (violations or job.get("keep_plan"))
               else None, sample=eng.sample_history(plan))
  except core.HarnessError as ex:
    out.update(ok=False, error="HarnessError: %s" % ex)
  except BaseException as ex:  # pylint: disable=broad-except
    out.update(ok=False, error="%s: %s\n%s" % (type(ex).__name__, ex,
                                               traceback.format_exc()))
  out["wall"] = time.time() - t0
  return out


def run_jobs(jobs, workers, budget_s, on_result=None, stop=None):
  """Runs jobs on a fork pool; stops handing out work after budget_s.

  Returns (results sorted by (engine, profile, run_index), skipped count).
  """
  results = []
  skipped = 0
  t0 = time.time()
  if workers <= 1:
    for job in jobs:
      if time.time() - t0 > budget_s or (stop and stop()):
        skipped += 1
        continue
      res = do_job(job)
      results.append(res)
      if on_result:
        on_result(res)
  else:
    ctx = multiprocessing.get_context("fork")
    sys.stdout.flush()
    sys.stderr.flush()
    with concurrent.futures.ProcessPoolExecutor(
        max_workers=workers, mp_context=ctx) as pool:
      pending = set()
      it = iter(jobs)
      exhausted = False

      def top_up():
        nonlocal exhausted, skipped
        while not exhausted and len(pending) < 2 * workers:
          if time.time() - t0 > budget_s or (stop and stop()):
            rest = sum(1 for _ in it)
            skipped += rest
            exhausted = True
            break
          try:
            job = next(it)
          except StopIteration:
            exhausted = True
            break
          pending.add(pool.submit(do_job, job))

      top_up()
      while pending:
        done, _ = concurrent.futures.wait(
            pending, timeout=30,
            return_when=concurrent.futures.FIRST_COMPLETED)
        for fut in done:
          pending.discard(fut)
          try:
            res = fut.result()
          except Exception as ex:  # pylint: disable=broad-except
            raise core.HarnessError("pool worker failed: %r" % (ex,))
          results.append(res)
          if on_result:
            on_result(res)
        if stop and stop():
          for fut in list(pending):
            if fut.cancel():
              pending.discard(fut)
              skipped += 1
        top_up()
  results.sort(key=lambda r: (r["engine"], r["profile"], str(r["label"]),
                              r["run_index"]))
  return results, skipped


def ddmin(items, test, deadline):
  """Delta debugging: a small sublist of items for which test() stays True."""
  items = list(items)
  n = 2
  while len(items) >= 2 and time.time() < deadline:
    chunk = max(1, len(items) // n)
    reduced = False
    for start in range(0, len(items), chunk):
      if time.time() >= deadline:
        break
      cand = items[:start] + items[start + chunk:]
      if cand and test(cand):
        items = cand
        n = max(n - 1, 2)
        reduced = True
        break
    if not reduced:
      if chunk == 1:
        break
      n = min(len(items), n * 2)
  return items
