"""Per-property check specifications, reporting, evidence, replay."""

import os
import sys
import time

from dst import core
from dst import overlay
from dst import runner

# property -> list of (engine, profile, quick runs, thorough runs)
PLANS = {
    "C20": [("D", "default", 600, 60000)],
    "C16": [("A", "rsa", 90, 1800), ("A", "ec", 40, 600),
            ("A", "ecdsa", 32, 500), ("A", "rsa_lhw", 2, 24)],
    "C17": [("A", "rsa", 90, 1800), ("A", "ec", 40, 600),
            ("A", "ecdsa", 32, 500), ("A", "ec_big", 3, 40),
            ("A", "ec_default", 0, 2), ("A", "rsa_lhw", 2, 24),
            ("A", "rsa_huge", 1, 8), ("A", "ecdsa_huge", 1, 8)],
    "C07": [("A", "rsa", 90, 1800), ("A", "ec", 40, 600),
            ("A", "ecdsa", 32, 500), ("A", "rsa_large", 2, 24),
            ("A", "ecdsa_large", 2, 24), ("A", "ec_allcurves", 2, 24),
            ("A", "ecdsa_allcurves", 2, 24), ("A", "rsa_lhw", 2, 24)],
    "C18": [("A", "rsa", 110, 2200), ("A", "ec", 48, 700),
            ("A", "ecdsa", 40, 600), ("A", "ec_big", 3, 40),
            ("A", "ec_default", 0, 2), ("A", "rsa_large", 1, 8),
            ("A", "ecdsa_large", 1, 8)],
    "C13": [("C", "driver", 6000, 200000), ("C", "e2e", 120, 2500),
            ("C", "faultsweep", 400, 8000), ("C", "calib", 60, 900)],
    "C10": [("B", "tiny", 1500, 40000), ("B", "named", 500, 12000),
            ("A", "ec", 40, 700), ("A", "ec_big", 4, 60),
            ("A", "ec_default", 0, 2)],
}
BUDGET = {"quick": 170.0, "thorough": 2100.0}

ASSUMPTIONS_COMMON = [
    "paranoid_pb2/data_pb2 are built in memory from the working tree's .proto "
    "files through python-protobuf reflection (no protoc in the sandbox)",
    "the pybind Berlekamp-Massey module is the working tree's C++ compiled "
    "behind an extern-C ctypes shim (no pybind11 in the sandbox)",
    "seeded sampling of histories: a clean batch is evidence, not proof",
]


def spec(prop, tier, seed, args):
  if prop not in PLANS:
    raise core.HarnessError(
        "property %s is not claimed by this machinery (see MANIFEST "
        "not_applicable)" % prop)
  directed, lanes = [], []
  for engine, profile, nq, nt in PLANS[prop]:
    if args.profile and args.profile != profile:
      continue
    eng = runner.engine_module(engine)
    n = args.runs if args.runs is not None else (nq if tier == "quick" else nt)
    if n or nq or tier == "thorough":
      for label, plan in core.run_in_child(
          eng.directed_plans, (prop, profile), 600.0, "directed plans"):
        directed.append(runner.make_job(engine, prop, profile, tier, seed, -1,
                                        plan=plan, label=label))
    lanes.append([runner.make_job(engine, prop, profile, tier, seed, i)
                  for i in range(n)])
  # interleave the profiles proportionally, so that a wall-clock budget cut
  # thins every profile instead of dropping the last one
  jobs = list(directed)
  total = sum(len(l) for l in lanes)
  pos = [0] * len(lanes)
  for _ in range(total):
    k = min((k for k in range(len(lanes)) if pos[k] < len(lanes[k])),
            key=lambda k: (pos[k] + 1) / (len(lanes[k]) + 1))
    jobs.append(lanes[k][pos[k]])
    pos[k] += 1
  return {"jobs": jobs, "budget_s": BUDGET[tier], "plans": PLANS[prop]}


def _vio_line(prop, path):
  return "VIOLATION property=%s replay=%s" % (prop, path)


def report(prop, tier, seed, spec_, results, skipped, known, t0, args):
  harness = [r for r in results if not r["ok"]]
  new, known_hits, also = [], {}, {}
  for r in results:
    if not r["ok"]:
      continue
    for v in r["violations"]:
      if v["property"] != prop:
        also.setdefault((v["property"], v["key"]), (r, v))
        continue
      k = core.known_for(known, prop, v["known"]) if v.get("known") else None
      if k is not None:
        known_hits.setdefault(k["id"], (k, r, v))
      else:
        new.append((r, v))

  # statistical clauses that only exist over the whole batch of runs
  batch_viol = []
  for engine in sorted({e for e, _, _, _ in spec_["plans"]}):
    eng = runner.engine_module(engine)
    if hasattr(eng, "cross_run"):
      for v in eng.cross_run(prop, results):
        batch_viol.append(({"engine": engine, "profile": "batch",
                            "run_index": -2, "plan": {
                                "batch": {"property": prop, "tier": tier,
                                          "verif_seed": seed,
                                          "runs": args.runs,
                                          "profile": args.profile}}}, v))
  new += batch_viol

  for kid in sorted(known_hits):
    k, r, v = known_hits[kid]
    print("KNOWN-FINDING: property=%s id=%s %s (e.g. run %s/%s step %s: %s)" %
          (prop, kid, _known_text(k), r["profile"], r["run_index"],
           v.get("step"), v["message"]))
  for (p, key), (r, v) in sorted(also.items(), key=lambda kv: kv[0]):
    if p == "ROBUSTNESS":
      print("ROBUSTNESS-NOTE (non-gating asynchronous-abort probe) %s (run "
            "%s/%s)" % (v["message"], r["profile"], r["run_index"]))
      continue
    print("ALSO-OBSERVED property=%s %s (run %s/%s; authoritative check: "
          "that property's own command)" % (p, v["message"], r["profile"],
                                            r["run_index"]))

  # report distinct new violations (by key), minimised, replay verified
  rc = 0
  reported = {}
  for r, v in new:
    if v["key"] in reported:
      reported[v["key"]]["count"] += 1
      continue
    reported[v["key"]] = {"r": r, "v": v, "count": 1}
  bad_replay = []
  for key in sorted(reported)[:5]:
    r, v = reported[key]["r"], reported[key]["v"]
    eng = runner.engine_module(r["engine"])
    plan = r["plan"]
    doc = _replay_doc(prop, seed, r, v, plan, args)
    path = core.write_replay(prop, seed, r["run_index"], doc,
                             suffix="-" + _slug(key))
    if not args.no_minimise and "batch" not in plan:
      deadline = time.time() + (120 if tier == "quick" else 600)
      try:
        small = eng.minimise(plan, v, deadline)
        ev2, v2s, _ = eng.execute(small)
        same = [x for x in v2s if x["key"] == v["key"] and
                x["property"] == prop]
        if same:
          doc = _replay_doc(prop, seed, r, same[0], small, args)
          doc["original_ops"] = _plan_size(plan)
          doc["minimised_ops"] = _plan_size(small)
          path = core.write_replay(prop, seed, r["run_index"], doc,
                                   suffix="-" + _slug(key))
        else:
          bad_replay.append(key)
      except core.HarnessError as ex:
        print("HARNESS-ERROR: minimisation/replay of %s failed: %s" % (key, ex))
        bad_replay.append(key)
    print("violation: %s [%s] x%d first in run %s/%s/%s step %s" %
          (v["message"], v["invariant"], reported[key]["count"], r["engine"],
           r["profile"], r["run_index"], v.get("step")))
    print(_vio_line(prop, path))
    rc = 1
  if len(reported) > 5:
    print("(%d further distinct violation classes not written out)" %
          (len(reported) - 5))

  for r in harness[:10]:
    print("HARNESS-ERROR: run %s/%s/%s: %s" %
          (r["engine"], r["profile"], r["run_index"], r["error"]))
  if harness or bad_replay:
    if bad_replay:
      print("HARNESS-ERROR: violation(s) did not replay: %s" % bad_replay)
    if rc == 0:
      rc = 2

  wall = time.time() - t0
  if not args.no_evidence:
    cov = _coverage(prop, tier, spec_, results, skipped, harness, known_hits,
                    wall)
    core.write_evidence(prop, tier, seed, cov, _assumptions(prop), wall,
                        len(reported))
  ok_runs = sum(1 for r in results if r["ok"])
  print("dst: property=%s runs=%d skipped=%d harness_errors=%d new_violation_"
        "classes=%d known_findings=%d wall=%.1fs -> exit %d" %
        (prop, ok_runs, skipped, len(harness), len(reported), len(known_hits),
         wall, rc))
  return rc


def _known_text(k):
  t = k["text"]
  t = t[t.index("match="):] if "match=" in t else t
  return t if len(t) <= 260 else t[:257] + "..."


def _slug(key):
  return "".join(c if c.isalnum() else "_" for c in key)[:60]


def _plan_size(plan):
  return len(plan.get("ops", []))


def _replay_doc(prop, seed, r, v, plan, args):
  return {"property": prop, "verif_seed": seed, "engine": r["engine"],
          "profile": r["profile"], "run_index": r["run_index"],
          "violation": v, "plan": plan,
          "repo_revision": overlay.repo_revision(args.repo)}


def replay(doc, args):
  eng = runner.engine_module(doc["engine"])
  prop = doc["property"]
  want = doc["violation"]["key"]
  if "batch" in doc["plan"]:
    b = doc["plan"]["batch"]

    class _A:
      runs, profile = b["runs"], b["profile"]
    sp = spec(prop, b["tier"], b["verif_seed"], _A)
    results, _ = runner.run_jobs(sp["jobs"], os.cpu_count() or 1, 1e9)
    viols = eng.cross_run(prop, results)
  else:
    _, viols, _ = eng.execute(doc["plan"])
  same = [v for v in viols if v["property"] == prop and v["key"] == want]
  for v in viols:
    if args.verbose:
      print("observed: %s %s" % (v["property"], v["message"]))
  if same:
    print("violation: %s [%s]" % (same[0]["message"], same[0]["invariant"]))
    print(_vio_line(prop, os.path.abspath(args.file)))
    return 1
  print("replay: violation %s not reproduced on this tree" % want)
  return 0


# ----------------------------------------------------------------------------
# evidence
# ----------------------------------------------------------------------------


def _assumptions(prop):
  eng_specific = []
  for engine, _, _, _ in PLANS[prop]:
    eng_specific += runner.engine_module(engine).ASSUMPTIONS
  return ASSUMPTIONS_COMMON + eng_specific


def _coverage(prop, tier, spec_, results, skipped, harness, known_hits, wall):
  ok = [r for r in results if r["ok"]]
  cov = {"runs": len(ok), "runs_skipped_by_budget": skipped,
         "harness_errors": len(harness),
         "runs_per_hour": int(len(ok) * 3600 / max(wall, 1e-6)),
         "seeds_per_hour": int(len(ok) * 3600 / max(wall, 1e-6)),
         "known_findings_reproduced": sorted(known_hits),
         "workers": os.cpu_count()}
  by_engine = {}
  for r in ok:
    by_engine.setdefault(r["engine"], []).append(r)
  evaluations = 0
  distinct = 0
  rules = []
  samples = []
  for engine, rs in sorted(by_engine.items()):
    eng = runner.engine_module(engine)
    part = eng.coverage(prop, rs)
    evaluations += part.pop("evaluations")
    distinct += part.pop("distinct_nontrivial")
    rules.append(part.pop("rule"))
    samples += part.pop("samples")
    cov["engine_%s" % engine] = part
  cov["evaluations"] = evaluations
  cov["distinct_nontrivial"] = distinct
  cov["rule"] = " | ".join(rules)
  cov["samples"] = samples[:5]
  cov["exhaustive"] = False
  return cov
