"""Reference model of verdict bookkeeping (C16) -- independent of lib/util.py.

State per artifact (an *annotation*):
  {"weak": bool, "ver": str, "entries": [[name, result, severity], ...],
   "infos": [[info_name, value_text], ...]}

A per-call verdict V for one artifact is the annotation a clean clone received
from the call (entries in the order they were written, infos attached).
"""

import ast

FACTOR_INFOS = ("N_FACTORS", "N-1_FACTORS")


def empty():
  return {"weak": False, "ver": "", "entries": [], "infos": []}


def parse_factors(text):
  """Semantic value of a factor record: a frozenset of ints (S8: the textual
  order of a str(set) depends on PYTHONHASHSEED)."""
  val = ast.literal_eval(text)
  if not isinstance(val, (set, frozenset, list, tuple)):
    raise ValueError("factor record is not a collection: %r" % (text[:60],))
  return frozenset(int(h, 16) for h in val)


def sem_infos(infos):
  """[[name, text]] -> {name: semantic value}; duplicate names are reported."""
  out = {}
  dup = []
  for name, text in infos:
    if name in out:
      dup.append(name)
      continue
    if name in FACTOR_INFOS:
      try:
        out[name] = ("factors", parse_factors(text))
      except Exception as ex:  # pylint: disable=broad-except
        out[name] = ("unparsable", "%s: %s" % (type(ex).__name__, text[:80]))
    else:
      out[name] = ("text", text)
  return out, dup


def merge(old, v, lib_version):
  """Predicted annotation after a call with per-call verdict v on `old`.

  Rules (statement of C16 + documented behaviour of the result merge):
  entry present  -> result = old or new, severity = max(old, new) on the first
                    entry of that name; all other entries untouched
  entry absent   -> appended
  factor records -> union;   other info records -> value of this call
  weak           -> old or any(positive entry written by this call)
  version        -> kept if already recorded, else stamped when the call
                    wrote at least one entry
  """
  new = {"weak": old["weak"], "ver": old["ver"],
         "entries": [list(e) for e in old["entries"]],
         "infos": None}
  for name, res, sev in v["entries"]:
    for e in new["entries"]:
      if e[0] == name:
        e[1] = bool(e[1] or res)
        e[2] = max(e[2], sev)
        break
    else:
      new["entries"].append([name, bool(res), sev])
    if res:
      new["weak"] = True
  if v["entries"] and not new["ver"]:
    new["ver"] = lib_version
  old_sem, _ = sem_infos(old["infos"])
  v_sem, _ = sem_infos(v["infos"])
  sem = dict(old_sem)
  for name, val in v_sem.items():
    if val[0] == "factors" and name in sem and sem[name][0] == "factors":
      sem[name] = ("factors", sem[name][1] | val[1])
    else:
      sem[name] = val
  new["infos"] = sem
  return new


def compare(pred, post):
  """Differences between the model's prediction and the observed annotation.

  Returns a list of (clause, message).  Entry order is not compared; entry
  multiplicity per name is."""
  diffs = []
  if bool(post["weak"]) != bool(pred["weak"]):
    diffs.append(("weak_flag", "weak flag is %s, model predicts %s" %
                  (post["weak"], pred["weak"])))
  if bool(post["ver"]) != bool(pred["ver"]):
    diffs.append(("version", "library version recorded=%r, model predicts %r"
                  % (post["ver"], pred["ver"])))
  elif pred["ver"] and post["ver"] != pred["ver"]:
    diffs.append(("version", "library version %r, model predicts %r" %
                  (post["ver"], pred["ver"])))

  def by_name(entries):
    d = {}
    for name, res, sev in entries:
      d.setdefault(name, []).append((bool(res), int(sev)))
    return d

  pe, oe = by_name(pred["entries"]), by_name(post["entries"])
  for name in sorted(set(pe) | set(oe)):
    a, b = pe.get(name, []), oe.get(name, [])
    if len(b) > len(a):
      diffs.append(("duplicate_entry" if a else "unexpected_entry",
                    "%d entries named %s, model predicts %d" %
                    (len(b), name, len(a))))
    elif len(b) < len(a):
      diffs.append(("missing_entry", "%d entries named %s, model predicts %d"
                    % (len(b), name, len(a))))
    elif sorted(a) != sorted(b):
      if [x[0] for x in sorted(a)] != [x[0] for x in sorted(b)]:
        clause = "result_merge"
      else:
        clause = "severity_merge"
      diffs.append((clause, "entry %s is %s, model predicts %s" %
                    (name, sorted(b), sorted(a))))
  post_sem, dup = sem_infos(post["infos"])
  for name in dup:
    diffs.append(("duplicate_info", "info record %s appears twice" % name))
  for name in sorted(set(pred["infos"]) | set(post_sem)):
    a, b = pred["infos"].get(name), post_sem.get(name)
    if a != b:
      if a and b and a[0] == "factors" and b[0] == "factors":
        lost = sorted(a[1] - b[1])
        extra = sorted(b[1] - a[1])
        diffs.append(("factor_merge",
                      "%s: lost %s, unexplained %s" %
                      (name, [hex(x) for x in lost[:3]],
                       [hex(x) for x in extra[:3]])))
      else:
        diffs.append(("info_merge", "%s is %r, model predicts %r" %
                      (name, _short(b), _short(a))))
  return diffs


def _short(v):
  if v is None:
    return None
  if v[0] == "factors":
    return ("factors", sorted(hex(x)[:20] for x in v[1]))
  return (v[0], v[1][:60])


def as_state(snap):
  """Observed snapshot -> model state (infos in semantic form)."""
  sem, _ = sem_infos(snap["infos"])
  return {"weak": bool(snap["weak"]), "ver": snap["ver"],
          "entries": [list(e) for e in snap["entries"]], "infos": sem}


def state_from_pred(pred):
  return pred
