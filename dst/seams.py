"""Simulator-owned seams: clock, entropy, resource files, logging sink.

All are installed by module-attribute replacement; nothing in /repo changes.
Every seam draws from its own random.Random seeded from the plan, so a plan is
a complete description of the environment.
"""

import io
import logging as pylogging
import random
import types


# ----------------------------------------------------------------------------
# SimClock (S7)
# ----------------------------------------------------------------------------


class SimClock:
  """Stands in for the `time` module inside paranoid.py / random_test_suite.py.

  Every time() call advances simulated time by a delta chosen by the clock's
  own PRNG: zero, small, a large forward jump, or a *backward* jump.
  """

  def __init__(self, seed, start=1.6e9):
    self._rng = random.Random(seed)
    self.now = float(start)
    self.start = float(start)
    self.calls = 0
    self.backward = 0
    self.big_jumps = 0
    self.max_seen = float(start)
    self.min_seen = float(start)

  def time(self):
    self.calls += 1
    u = self._rng.random()
    if u < 0.25:
      delta = 0.0
    elif u < 0.80:
      delta = self._rng.random() * 0.01
    elif u < 0.90:
      delta = self._rng.random() * 86400.0 * 30
      self.big_jumps += 1
    else:
      delta = -self._rng.random() * 3600.0
      self.backward += 1
    self.now += delta
    self.max_seen = max(self.max_seen, self.now)
    self.min_seen = min(self.min_seen, self.now)
    return self.now

  # the library only uses time.time(); anything else is a harness bug
  def __getattr__(self, name):
    raise AttributeError("SimClock: unexpected use of time.%s" % name)

  def stats(self):
    return {"calls": self.calls, "backward_jumps": self.backward,
            "big_forward_jumps": self.big_jumps,
            "span_s": self.max_seen - self.min_seen}


def install_clock(clock):
  from paranoid_crypto.lib import paranoid
  from paranoid_crypto.lib.randomness_tests import random_test_suite
  paranoid.time = clock
  random_test_suite.time = clock


# ----------------------------------------------------------------------------
# SimEntropy (S6)
# ----------------------------------------------------------------------------


class SimEntropy:
  """Replaces `os` inside randomness_tests.rng: urandom() from a keyed PRNG."""

  def __init__(self, key):
    self.rekey(key)
    self.calls = 0
    self.nbytes = 0

  def rekey(self, key):
    self._rng = random.Random(("entropy", key).__repr__())

  def urandom(self, k):
    self.calls += 1
    self.nbytes += k
    return self._rng.getrandbits(8 * k).to_bytes(k, "little") if k else b""

  def __getattr__(self, name):
    raise AttributeError("SimEntropy: unexpected use of os.%s" % name)


def install_entropy(entropy):
  from paranoid_crypto.lib.randomness_tests import rng
  rng.os = entropy


# ----------------------------------------------------------------------------
# resource file seam (S4)
# ----------------------------------------------------------------------------


class ResourceSeam:
  """Wraps resources.GetParanoidResourceAsFile.

  * overlay: in-memory replacement content for named resources (used to plant
    fingerprints into the three empty weak_keylist files).
  * faults: {open_index: kind}, kind in {"oserror", "torn"}; open_index counts
    calls while the seam is armed.  A fired fault is recorded.
  """

  def __init__(self, overlay=None):
    from paranoid_crypto.lib import resources
    self._resources = resources
    self._orig = resources.GetParanoidResourceAsFile
    self.overlay = dict(overlay or {})
    self.faults = {}
    self.opens = 0          # opens since last arm()
    self.total_opens = 0
    self.fired = []

  def install(self):
    self._resources.GetParanoidResourceAsFile = self._open

  def uninstall(self):
    self._resources.GetParanoidResourceAsFile = self._orig

  def arm(self, faults):
    self.faults = {int(k): v for k, v in faults.items()}
    self.opens = 0

  def heal(self):
    self.faults = {}

  def _open(self, path, mode="r"):
    idx = self.opens
    self.opens += 1
    self.total_opens += 1
    kind = self.faults.get(idx)
    if kind == "oserror":
      self.fired.append(("oserror", path))
      raise OSError(5, "simulated I/O error opening resource", path)
    if path in self.overlay:
      data = self.overlay[path]
      fh = io.BytesIO(data) if "b" in mode else io.StringIO(data.decode())
    else:
      fh = self._orig(path, mode)
    if kind == "torn":
      self.fired.append(("torn", path))
      data = fh.read()
      fh.close()
      cut = len(data) // 2
      if isinstance(data, bytes):
        # a truncated binary resource (the lzma table): decompression fails
        return io.BytesIO(data[:cut])
      # A text resource is consumed line by line; silently dropping its tail
      # would model a corrupt installation (which no library can notice), not
      # a fault.  The realistic fault is a read error in the middle of the
      # file: half of the lines, then EIO.
      return _FailingTextFile(data[:cut], path)
    return fh


class _FailingTextFile(io.StringIO):
  """Yields the given text, then raises OSError instead of signalling EOF."""

  def __init__(self, text, path):
    super().__init__(text)
    self._path = path

  def _fail(self):
    raise OSError(5, "simulated read error in the middle of a resource",
                  self._path)

  def __next__(self):
    try:
      return super().__next__()
    except StopIteration:
      self._fail()

  def read(self, *args):
    data = super().read(*args)
    if not data:
      self._fail()
    if not args or args[0] is None or args[0] < 0:
      self._fail()
    return data

  def readline(self, *args):
    line = super().readline(*args)
    if not line:
      self._fail()
    return line

  def readlines(self, *args):
    self._fail()


# ----------------------------------------------------------------------------
# logging sink
# ----------------------------------------------------------------------------


class _Sink(pylogging.Handler):

  def __init__(self):
    super().__init__(level=0)
    self.counts = {}

  def emit(self, record):
    # Format the message exactly as a real handler would, then drop it.  A
    # real handler does not propagate formatting errors to the caller
    # (logging.Handler.handleError prints them to stderr), so neither does the
    # sink: they are counted and reported as a probe, never as a raise of the
    # library call.
    try:
      record.getMessage()
    except Exception:  # pylint: disable=broad-except
      self.counts["FORMAT_ERROR"] = self.counts.get("FORMAT_ERROR", 0) + 1
      return
    self.counts[record.levelname] = self.counts.get(record.levelname, 0) + 1


_SINK = None


def install_log_sink():
  """Routes absl logging into a formatting-but-discarding handler."""
  global _SINK
  from absl import logging as absl_logging
  logger = absl_logging.get_absl_logger()
  if _SINK is None:
    _SINK = _Sink()
  for h in list(logger.handlers):
    logger.removeHandler(h)
  logger.addHandler(_SINK)
  logger.propagate = False
  logger.setLevel(pylogging.DEBUG)
  absl_logging.set_verbosity(absl_logging.DEBUG)
  return _SINK


def log_counts():
  return dict(_SINK.counts) if _SINK else {}


# ----------------------------------------------------------------------------
# allocation-failure seam on EcCurve's internal call boundaries
# ----------------------------------------------------------------------------


class AllocFault:
  """Wraps EcCurve methods: the k-th call of `method` while armed raises
  MemoryError (the table build is where a real process runs out of memory)."""

  METHODS = ("PointSequence", "BatchAddX", "Multiply")

  def __init__(self):
    from paranoid_crypto.lib import ec_util
    self.cls = ec_util.EcCurve
    self.armed = None
    self.count = 0
    self.fired = 0
    self.installed = False

  def install(self):
    if self.installed:
      return
    self.installed = True
    for name in self.METHODS:
      setattr(self.cls, name, self._wrap(name, getattr(self.cls, name)))

  def _wrap(self, name, orig):
    fault = self

    def wrapper(self_curve, *args, **kw):
      if fault.armed and fault.armed[0] == name:
        idx = fault.count
        fault.count += 1
        if idx == fault.armed[1]:
          fault.fired += 1
          raise MemoryError("simulated allocation failure in %s" % name)
      return orig(self_curve, *args, **kw)

    wrapper.__name__ = name
    wrapper.__doc__ = orig.__doc__
    return wrapper

  def arm(self, method, k):
    self.armed = (method, int(k))
    self.count = 0

  def heal(self):
    self.armed = None


# ----------------------------------------------------------------------------
# allocation failure at an arbitrary function entry of the library
# ----------------------------------------------------------------------------


class CallFault:
  """MemoryError at the k-th Python function entry inside chosen library
  modules while armed (sys.monitoring PY_START local events on every function
  and method of those modules, nested code objects included).  Deterministic:
  the k-th entry is a property of the code and the inputs.  Reaches helper
  functions that did not exist when the plan was written."""

  TOOL = 3
  _registered = False

  def __init__(self):
    import sys as _sys
    self.mon = _sys.monitoring
    self.codes = []
    self.left = -1
    self.fired = 0
    self.where = None
    if not CallFault._registered:
      try:
        self.mon.use_tool_id(self.TOOL, "dst-callfault")
      except ValueError:
        pass
      CallFault._registered = True
    self.mon.register_callback(self.TOOL, self.mon.events.PY_START,
                               self._start)

  @staticmethod
  def _codes_of(module):
    import types
    seen, out = set(), []

    def add_code(code):
      if id(code) in seen:
        return
      seen.add(id(code))
      out.append(code)
      for c in code.co_consts:
        if isinstance(c, types.CodeType):
          add_code(c)

    def visit(obj):
      if isinstance(obj, (types.FunctionType,)):
        if obj.__module__ == module.__name__:
          add_code(obj.__code__)
      elif isinstance(obj, (staticmethod, classmethod)):
        visit(obj.__func__)
      elif isinstance(obj, type) and obj.__module__ == module.__name__:
        for v in vars(obj).values():
          visit(v)

    for v in list(vars(module).values()):
      visit(v)
    return out

  def arm(self, modules, k):
    import importlib
    self.heal()
    for name in modules:
      try:
        mod = importlib.import_module(name)
      except Exception:  # pylint: disable=broad-except
        continue
      self.codes += self._codes_of(mod)
    self.left = int(k)
    for code in self.codes:
      self.mon.set_local_events(self.TOOL, code, self.mon.events.PY_START)

  def heal(self):
    for code in self.codes:
      self.mon.set_local_events(self.TOOL, code, 0)
    self.codes = []
    self.left = -1

  def _start(self, code, offset):
    if self.left < 0:
      return None
    if self.left == 0:
      self.left = -1
      self.fired += 1
      self.where = "%s:%s" % (code.co_filename.split("/")[-1], code.co_name)
      raise MemoryError("simulated allocation failure entering %s" %
                        code.co_name)
    self.left -= 1
    return None
