"""Engine C: the randomness-suite driver as a state machine (C13).

profile "driver": real TestStructure / TestSource / TestBitString /
CombinedPValue, *stub* statistical tests returning scripted p-values, a stub
Source, SimClock with jumps, seam faults (a test raising InsufficientDataError
on its j-th run, a Source that raises).  Oracle: reference decision model with
an independent high-precision Fisher combination.

profile "e2e": real tests (native Berlekamp-Massey through the shim) on seeded
generator output: good generators must pass, documented weak generators must
fail the documented test at the documented sizes.
"""

import math
import random

import mpmath

from dst import core
from dst import seams

PROPERTY = "C13"

ASSUMPTIONS = [
    "driver runs replace random_test_suite.TESTS by scripted stubs; the "
    "decision structure, the repeat loop and CombinedPValue are real",
    "threshold comparisons within 1e-9 relative are accepted either way unless "
    "the tie is structural (one p-value, or p-values equal to the level)",
    "a sub-test that is absent from a run keeps its p-values and its state "
    "(scripts drop decided sub-tests from some runs, rarely an undecided one: "
    "known finding F9)",
    "end-to-end clauses are statistical statements sampled over seeds; sizes "
    "and tests for the weak generators are the documented ones",
]

mpmath.mp.dps = 60


# ----------------------------------------------------------------------------
# reference model
# ----------------------------------------------------------------------------


def fisher(pvals):
  """Fisher's combination, closed form e^-s * sum_{j<k} s^j/j! (60 digits).

  One p-value combines to itself; a zero p-value combines to zero.
  """
  k = len(pvals)
  if k == 1:
    return mpmath.mpf(pvals[0])
  if min(pvals) == 0:
    return mpmath.mpf(0)
  s = -sum(mpmath.log(mpmath.mpf(p)) for p in pvals)
  term = mpmath.mpf(1)
  acc = mpmath.mpf(1)
  for j in range(1, k):
    term = term * s / j
    acc += term
  return mpmath.exp(-s) * acc


def classify(pvals, fail, repeat):
  """Returns set of admissible states {'FAILED','PASSED','UNDECIDED'}.

  FAILED  <=> comb < fail
  PASSED  <=> not FAILED and comb > comb(repeat x k)
  else UNDECIDED.  Near-ties (1e-9 relative) admit both neighbours unless
  structural.
  """
  k = len(pvals)
  comb = fisher(pvals)
  rep = fisher([repeat] * k)
  structural = k == 1 or all(p == repeat for p in pvals) or \
      all(p == fail for p in pvals)

  def near(a, b):
    if structural:
      return False
    if a == b:
      return True
    return abs(a - b) <= mpmath.mpf("1e-9") * max(abs(a), abs(b))

  out = set()
  if comb < fail or near(comb, fail):
    out.add("FAILED")
  if not comb < fail or near(comb, fail):
    if comb > rep or near(comb, rep):
      out.add("PASSED")
    if not comb > rep or near(comb, rep):
      out.add("UNDECIDED")
  return out, comb


class ModelTest:
  """Reference model of one decision structure."""

  def __init__(self, fail, repeat, min_rep):
    self.fail, self.repeat, self.min_rep = fail, repeat, min_rep
    self.pvals = {}
    self.states = {}       # name -> admissible set after the last run
    self.runs = 0
    self.finished = {False}
    self.stale_undecided = False

  def run(self, result):
    """result: list of (name, p) or 'insufficient'. Returns admissible
    finished values."""
    self.runs += 1
    if result == "insufficient":
      self.finished = {True}
      return self.finished
    undecided_possible = False
    undecided_certain = False
    present = set()
    for name, p in result:
      present.add(name)
      self.pvals.setdefault(name, []).append(p)
      adm, _ = classify(self.pvals[name], self.fail, self.repeat)
      self.states[name] = adm
    # a sub-test that is absent from this run keeps its p-values and hence its
    # state; "repeated while undecided" ranges over every sub-test seen so far
    self.stale_undecided = False
    for name, adm in self.states.items():
      if "UNDECIDED" in adm:
        undecided_possible = True
        if len(adm) == 1:
          undecided_certain = True
          if name not in present:
            self.stale_undecided = True
    if self.runs < self.min_rep or undecided_certain:
      self.finished = {False}
    elif undecided_possible:
      self.finished = {True, False}
    else:
      self.finished = {True}
    return self.finished

  def failed(self):
    """Admissible values of Failed()."""
    certain = any(adm == {"FAILED"} for adm in self.states.values())
    possible = any("FAILED" in adm for adm in self.states.values())
    if certain:
      return {True}
    return {True, False} if possible else {False}


# ----------------------------------------------------------------------------
# plan generation: driver profile
# ----------------------------------------------------------------------------


def _level_pair(r):
  fail = r.choice([1e-9, 1e-9, 1e-6, 1e-4, 1e-3, 0.01])
  repeat = r.choice([0.01, 0.01, 0.05, 0.001, fail, max(fail, 0.01)])
  if repeat < fail:
    repeat = fail
  return fail, repeat


def _script_p(r, fail, repeat, k_so_far, decisive):
  """One scripted p-value."""
  if decisive:
    return r.choice([1.0, 0.9, 0.75, 0.5 + r.random() / 2, 1])
  u = r.random()
  if u < 0.40:
    return r.random()
  if u < 0.50:
    return r.choice([0.0, 0, 1.0, 1])
  if u < 0.60:
    return r.choice([fail, repeat])
  if u < 0.75:
    # between the levels: the repeat zone
    lo, hi = sorted((fail, repeat))
    return lo + (hi - lo) * r.random() if hi > lo else lo
  if u < 0.85:
    return fail * r.choice([0.1, 0.5, 0.999999, 1.000001, 2.0, 10.0])
  if u < 0.95:
    return repeat * r.choice([0.5, 0.999999, 1.000001, 1.5])
  return 10.0 ** (-r.randint(1, 30))


def _gen_test_script(r, fail, repeat, rounds, decisive_after):
  """Scripted results of one stub test for `rounds` runs."""
  nsub = r.choice([0, 0, 1, 2, 3, 4])
  names = ["sub%d" % j for j in range(nsub)]
  appear = {nm: (0 if r.random() < 0.7 else r.randint(1, 2)) for nm in names}
  style = r.choice(["float", "npfloat", "int_ok"]) if nsub == 0 else "named"
  script = []
  insufficient_at = r.randint(0, 3) if r.random() < 0.12 else None
  crash_at = r.randint(0, 3) if r.random() < 0.04 else None
  shadow = ModelTest(fail, repeat, 1)   # decides which names may be dropped
  droppy = nsub >= 2 and r.random() < 0.35
  for k in range(rounds):
    dec = k >= decisive_after
    if insufficient_at is not None and k == insufficient_at:
      script.append("insufficient")
      continue
    if crash_at is not None and k == crash_at:
      script.append("crash")
      continue
    if nsub == 0:
      p = _script_p(r, fail, repeat, k, dec)
      script.append({"single": p, "style": style})
    else:
      lst = []
      for nm in names:
        if k >= appear[nm]:
          adm = shadow.states.get(nm)
          if droppy and adm is not None and k < rounds - 2:
            # a sub-test may be absent from a run (e.g. the excursion p-values
            # of the random walk test): mostly decided ones, rarely an
            # undecided one (finding F9)
            if len(adm) == 1 and "UNDECIDED" not in adm and r.random() < 0.3:
              continue
            if adm == {"UNDECIDED"} and r.random() < 0.04:
              continue
          lst.append([nm, _script_p(r, fail, repeat, k, dec)])
      if not lst:
        lst.append([names[0], _script_p(r, fail, repeat, k, dec)])
        appear[names[0]] = min(appear[names[0]], k)
      script.append({"named": lst})
      shadow.run([(nm, p) for nm, p in lst])
  # one name is a proper prefix of another (as LinearComplexity is of
  # LinearComplexityScatter in the real registry): a prefix equal to a full
  # name still selects every test that starts with it
  return {"name": "Stub%s" % r.choice(["Alpha", "Beta", "Gamma", "Delta",
                                        "Frequency", "Find", "AlphaScatter",
                                        "Alpha"]),
          "params": r.choice([[], [], [7], [3, 4]]), "script": script}


def gen_plan(run_seed, tier="quick", profile="driver", focus=None):
  r = random.Random(run_seed)
  if profile == "e2e":
    return _gen_e2e(r, tier)
  if profile == "faultsweep":
    return _gen_faultsweep(r, tier)
  if profile == "calib":
    return _gen_calib(r, tier)
  ops = []
  for _ in range(r.randint(1, 4)):
    fail, repeat = _level_pair(r)
    u = r.random()
    rounds = 14
    decisive_after = r.randint(1, 5)
    if u < 0.40:
      ops.append({"op": "teststructure", "fail": fail, "repeat": repeat,
                  "min_rep": r.choice([1, 1, 2, 3]),
                  "test": _gen_test_script(r, fail, repeat, rounds,
                                           decisive_after)})
    elif u < 0.85:
      tests = [_gen_test_script(r, fail, repeat, rounds, decisive_after)
               for _ in range(r.randint(1, 5))]
      prefix = None
      if r.random() < 0.3:
        prefix = r.choice(["Stub", "StubA", "StubF", tests[0]["name"],
                           "Nothing"])
      op = {"op": "testsource", "fail": fail, "repeat": repeat,
            "min_rep": r.choice([1, 1, 2, 3]), "tests": tests,
            "prefix": prefix, "log_level": r.choice([0, 1, 2]),
            "n": r.choice([1, 64, 1000, 2**20]),
            "source_name": r.choice([None, "stub source"])}
      if r.random() < 0.12:
        op["source_fault_round"] = r.randint(0, 2)
      ops.append(op)
    else:
      tests = [_gen_test_script(r, fail, fail, 1, 99)
               for _ in range(r.randint(1, 5))]
      ops.append({"op": "testbitstring", "level": fail, "tests": tests,
                  "prefix": None if r.random() < 0.7 else "Stub",
                  "log_level": r.choice([0, 1, 2]), "n": 4096,
                  "default_level": r.random() < 0.3})
  return {"engine": "C", "property": PROPERTY, "profile": "driver",
          "clock_seed": r.getrandbits(32), "ops": ops}


# ----------------------------------------------------------------------------
# execution: driver profile (forked child)
# ----------------------------------------------------------------------------

MAX_ROUNDS = 40


class _Overrun(Exception):
  pass


def _make_stub(tscript, calls):
  import numpy
  from paranoid_crypto.lib.randomness_tests import nist_suite

  def stub(bits, n, *params):
    k = len(calls)
    calls.append({"bits": bits, "n": n, "params": list(params)})
    entry = scripted_entry(tscript, k)
    if entry == "insufficient":
      raise nist_suite.InsufficientDataError("scripted: not enough data")
    if entry == "crash":
      raise RuntimeError("simulated failure inside a statistical test")
    if "single" in entry:
      p = entry["single"]
      if entry.get("style") == "npfloat":
        return numpy.float64(p)
      return p
    return [(nm, p) for nm, p in entry["named"]]

  stub.__name__ = tscript["name"]
  return stub


def _state_of(ts):
  return {"state": {k: v.name for k, v in ts.state.items()},
          "comb": {k: float(v) for k, v in ts.combined_p_values.items()},
          "finished": bool(ts.finished), "runs": int(ts.runs),
          "failed": bool(ts.Failed())}


def _subject(plan):
  from paranoid_crypto.lib.randomness_tests import random_test_suite as rts
  clock = seams.SimClock(plan["clock_seed"])
  seams.install_clock(clock)
  orig_tests = list(rts.TESTS)
  events = []
  for op in plan["ops"]:
    ev = {"op": op["op"]}
    try:
      if op["op"] == "teststructure":
        calls = []
        ts = rts.TestStructure(_make_stub(op["test"], calls),
                               op["test"]["params"], op["fail"], op["repeat"],
                               min_repetitions=op["min_rep"])
        steps = []
        for k in range(len(op["test"]["script"])):
          ret = ts.Run(1000 + k, 64)
          s = _state_of(ts)
          s["ret"] = ret if isinstance(ret, bool) else repr(ret)
          steps.append(s)
          ts.LogState(k % 3)
          if ts.finished:
            break
        ev["steps"] = steps
        ev["calls"] = calls
      elif op["op"] in ("testsource", "testbitstring"):
        all_calls = []
        stubs = []
        for t in op["tests"]:
          calls = []
          all_calls.append(calls)
          stubs.append((_make_stub(t, calls), t["params"]))
        rts.TESTS = stubs
        pulls = []

        def source(n, pulls=pulls, op=op):
          if len(pulls) >= MAX_ROUNDS:
            raise _Overrun("source pulled more than %d times" % MAX_ROUNDS)
          if op.get("source_fault_round") == len(pulls):
            pulls.append("fault")
            raise IOError("simulated source failure")
          pulls.append(n)
          return 7000 + len(pulls)

        try:
          if op["op"] == "testsource":
            ret = rts.TestSource(source, op["n"], op["repeat"], op["fail"],
                                 source_name=op.get("source_name"),
                                 test_prefix=op["prefix"],
                                 log_level=op["log_level"],
                                 min_repetitions=op["min_rep"])
          elif op.get("default_level"):
            ret = rts.TestBitString(4242, op["n"], test_prefix=op["prefix"],
                                    log_level=op["log_level"])
          else:
            ret = rts.TestBitString(4242, op["n"], op["level"],
                                    test_prefix=op["prefix"],
                                    log_level=op["log_level"])
          ev["ret"] = ret if isinstance(ret, bool) or ret is None \
              else repr(ret)
        finally:
          rts.TESTS = orig_tests
        ev["pulls"] = pulls
        ev["calls"] = all_calls
      else:
        raise core.HarnessError("unknown op %r" % op["op"])
    except _Overrun as ex:
      ev["overrun"] = str(ex)
      ev["pulls"] = pulls
      ev["calls"] = all_calls
    except Exception as ex:  # pylint: disable=broad-except
      ev["exc"] = "%s: %s" % (type(ex).__name__, str(ex)[:160])
      if op["op"] != "teststructure":
        ev["pulls"] = pulls
        ev["calls"] = all_calls
    events.append(ev)
  return {"events": events, "clock": clock.stats(),
          "tests_restored": rts.TESTS == orig_tests}


# ----------------------------------------------------------------------------
# judge: driver profile
# ----------------------------------------------------------------------------


def _v(invariant, step, key, msg, detail=None, known=None):
  return {"property": PROPERTY, "invariant": invariant, "step": step,
          "key": "%s:%s" % (invariant, key), "known": known, "message": msg,
          "detail": detail or {}}


F9 = "stale_undecided_absent_subtest"


def scripted_entry(tscript, k):
  """Entry number k of a test script; past its end every sub-test seen so far
  keeps reporting p = 1 (which is decisive)."""
  sc = tscript["script"]
  if k < len(sc):
    return sc[k]
  seen = []
  for x in sc:
    if isinstance(x, dict) and "named" in x:
      for nm, _ in x["named"]:
        if nm not in seen:
          seen.append(nm)
  if seen:
    return {"named": [[nm, 1.0] for nm in seen]}
  return {"single": 1.0, "style": "float"}


def _scripted(tscript, k):
  """The result the stub returns on its k-th run, in model form."""
  e = scripted_entry(tscript, k)
  if e in ("insufficient", "crash"):
    return e
  if "single" in e:
    return [("result", e["single"])]
  return [(nm, p) for nm, p in e["named"]]


def judge_driver(plan, res):
  viol = []
  st = {"ops": {}, "rounds": 0, "structure_runs": 0, "ties": 0,
        "insufficient_fired": 0, "source_faults_fired": 0,
        "clock_calls": res["clock"]["calls"],
        "clock_backward": res["clock"]["backward_jumps"],
        "clock_span_s": res["clock"]["span_s"], "trajectories": set(),
        "probes": {}}

  def probe(k):
    st["probes"][k] = st["probes"].get(k, 0) + 1

  if not res["tests_restored"]:
    raise core.HarnessError("random_test_suite.TESTS not restored")
  f9_ops = set()
  for i, (op, ev) in enumerate(zip(plan["ops"], res["events"])):
    st["ops"][op["op"]] = st["ops"].get(op["op"], 0) + 1
    if op["op"] == "teststructure":
      crash_idx = [k for k, e in enumerate(op["test"]["script"])
                   if e == "crash"]
      if "exc" in ev:
        if crash_idx and "simulated failure inside" in ev["exc"]:
          probe("test_fault_propagated")    # the faulted call is not judged
          continue
        viol.append(_v("driver_raises", i, "teststructure",
                       "TestStructure.Run raised %s" % ev["exc"]))
        continue
      m = ModelTest(op["fail"], op["repeat"], op["min_rep"])
      traj = []
      for k, s in enumerate(ev["steps"]):
        st["structure_runs"] += 1
        result = _scripted(op["test"], k)
        if result == "insufficient":
          st["insufficient_fired"] += 1
        fin = m.run(result)
        _compare_state(viol, i, k, m, s, fin, st, probe)
        traj.append(tuple(sorted(s["state"].items())))
      st["trajectories"].add(repr(traj))
      continue
    # ---- entry points ------------------------------------------------------
    is_source = op["op"] == "testsource"
    fail = op["fail"] if is_source else (1e-9 if op.get("default_level")
                                         else op["level"])
    repeat = op["repeat"] if is_source else fail
    min_rep = op["min_rep"] if is_source else 1
    active = [j for j, t in enumerate(op["tests"])
              if not op["prefix"] or t["name"].startswith(op["prefix"])]
    models = {j: ModelTest(fail, repeat, min_rep) for j in active}
    calls = ev.get("calls") or [[] for _ in op["tests"]]
    for j, t in enumerate(op["tests"]):
      if j not in active and calls[j]:
        viol.append(_v("prefix_ignored", i, "prefix",
                       "test %s ran although test_prefix=%r" %
                       (t["name"], op["prefix"])))
    if not active:
      probe("prefix_matches_nothing")
      if ev.get("ret") not in (None, False) or ev.get("pulls"):
        viol.append(_v("empty_selection", i, "ret",
                       "no test selected but entry point returned %r after %d "
                       "pulls" % (ev.get("ret"), len(ev.get("pulls") or []))))
      continue
    # simulate the documented loop with the model
    expect_pulls = 0
    fault_round = op.get("source_fault_round") if is_source else None
    finished = {j: {False} for j in active}
    runs = {j: 0 for j in active}
    ambiguous = False
    faulted = False
    f9_hit = False
    crashed = False
    if is_source:
      while True:
        if fault_round is not None and expect_pulls == fault_round:
          faulted = True
          expect_pulls += 1
          break
        expect_pulls += 1
        st["rounds"] += 1
        for j in active:
          if finished[j] == {True}:
            continue
          if finished[j] == {True, False}:
            ambiguous = True
            break
          result = _scripted(op["tests"][j], runs[j])
          if result == "insufficient":
            st["insufficient_fired"] += 1
          if result == "crash":
            crashed = True
            break
          runs[j] += 1
          finished[j] = models[j].run(result)
          if models[j].stale_undecided and finished[j] == {False} and \
              runs[j] >= min_rep:
            f9_hit = True
        if ambiguous or crashed:
          break
        if all(finished[j] == {True} for j in active):
          break
        if any(finished[j] == {True, False} for j in active):
          ambiguous = True
          break
        if expect_pulls >= MAX_ROUNDS:
          raise core.HarnessError("model did not terminate in %d rounds" %
                                  MAX_ROUNDS)
    else:
      for j in active:
        result = _scripted(op["tests"][j], 0)
        if result == "crash":
          crashed = True
          break
        runs[j] = 1
        models[j].run(result)
    if f9_hit:
      f9_ops.add(i)
    if crashed:
      probe("test_fault_fired")
      if "exc" not in ev or "simulated failure inside" not in ev["exc"]:
        # after an F9 divergence the real loop may have stopped before the
        # faulted run was ever reached
        viol.append(_v("test_fault_swallowed", i, op["op"],
                       "a statistical test raised RuntimeError but %s "
                       "returned %r" % (op["op"], ev.get("ret")),
                       known=F9 if f9_hit else None))
      continue
    if ambiguous:
      st["ties"] += 1
      probe("near_tie_run_not_judged")
      continue
    kn = F9 if f9_hit else None
    if f9_hit:
      f9_ops.add(i)
      probe("stale_undecided_subtest_absent_from_a_run")
    if faulted:
      st["source_faults_fired"] += 1
      probe("source_fault_fired")
      if "exc" not in ev or "simulated source failure" not in ev["exc"]:
        viol.append(_v("source_fault_swallowed", i, "source",
                       "the Source raised but TestSource returned %r" %
                       (ev.get("ret"),), known=kn))
      if len(ev.get("pulls") or []) != expect_pulls:
        viol.append(_v("pull_count", i, "before_fault",
                       "Source pulled %d times before its fault, model %d" %
                       (len(ev.get("pulls") or []), expect_pulls), known=kn))
      continue
    if "overrun" in ev and not f9_hit:
      viol.append(_v("liveness", i, "overrun",
                     "TestSource still pulling after %d rounds; the model "
                     "finishes after %d" % (MAX_ROUNDS, expect_pulls)))
      continue
    if "exc" in ev:
      viol.append(_v("driver_raises", i, op["op"],
                     "%s raised %s" % (op["op"], ev["exc"])))
      continue
    if is_source and len(ev["pulls"]) != expect_pulls:
      viol.append(_v("pull_count", i, "rounds",
                     "Source pulled %d times, model predicts %d rounds "
                     "(one pull per round, until no test is undecided)" %
                     (len(ev["pulls"]), expect_pulls),
                     {"runs_model": runs,
                      "runs_real": [len(c) for c in calls]}, known=kn))
    for j in active:
      if len(calls[j]) != runs[j]:
        viol.append(_v("run_count", i, "test",
                       "test %s ran %d times, model predicts %d (finished "
                       "tests are not run again, unfinished ones once per "
                       "round)" % (op["tests"][j]["name"], len(calls[j]),
                                   runs[j]), known=kn))
      for k, c in enumerate(calls[j]):
        if c["params"] != op["tests"][j]["params"] or c["n"] != op["n"]:
          viol.append(_v("call_args", i, "args",
                         "test called with n=%r params=%r" %
                         (c["n"], c["params"])))
          break
    if is_source:
      # every test of a round sees that round's bits
      for j in active:
        seen = [c["bits"] for c in calls[j]]
        if len(set(seen)) != len(seen) or any(
            not (7001 <= b <= 7000 + len(ev["pulls"])) for b in seen):
          viol.append(_v("round_bits", i, "bits",
                         "test %s saw bits of rounds %s" %
                         (op["tests"][j]["name"], [b - 7000 for b in seen])))
    failed_adm = set()
    certain = any(models[j].failed() == {True} for j in active)
    possible = any(True in models[j].failed() for j in active)
    failed_adm = {True} if certain else ({True, False} if possible
                                         else {False})
    if ev["ret"] not in failed_adm:
      viol.append(_v("entry_return", i, op["op"],
                     "%s returned %r, model: some sub-test failed = %s" %
                     (op["op"], ev["ret"], sorted(failed_adm)),
                     {"states": {op["tests"][j]["name"]:
                                 {k: sorted(v) for k, v in
                                  models[j].states.items()} for j in active}},
                     known=kn))
    elif len(failed_adm) == 2:
      st["ties"] += 1
    st["trajectories"].add(repr([(j, runs[j], sorted(
        (k, tuple(sorted(v))) for k, v in models[j].states.items()))
                                 for j in active]))
  # once the real loop and the model have diverged through F9 inside an
  # entry-point call, nothing later in that call can be attributed elsewhere
  for v in viol:
    if v["step"] in f9_ops and not v.get("known"):
      v["known"] = F9
  st["trajectories"] = sorted(st["trajectories"])
  return viol, st


def _compare_state(viol, i, k, m, s, fin, st, probe):
  for name, adm in m.states.items():
    got = s["state"].get(name)
    if got not in adm:
      pv = m.pvals[name]
      _, comb = classify(pv, m.fail, m.repeat)
      viol.append(_v("substate", i, "state",
                     "sub-test %s after run %d is %s, model %s (p-values %s, "
                     "Fisher %.6g, fail %g, repeat-combination %.6g)" %
                     (name, k + 1, got, sorted(adm), pv, float(comb), m.fail,
                      float(fisher([m.repeat] * len(pv)))),
                     {"pvals": pv}))
    if len(adm) > 1:
      st["ties"] += 1
    if name in s["comb"]:
      _, comb = classify(m.pvals[name], m.fail, m.repeat)
      c = float(comb)
      if not math.isclose(s["comb"][name], c, rel_tol=1e-7, abs_tol=1e-300):
        viol.append(_v("fisher_value", i, "comb",
                       "combined p-value of %s after run %d is %r, Fisher "
                       "closed form gives %r (p-values %s)" %
                       (name, k + 1, s["comb"][name], c, m.pvals[name])))
  extra = set(s["state"]) - set(m.states)
  if extra:
    viol.append(_v("substate", i, "extra", "unexpected sub-tests %s" %
                   sorted(extra)))
  if s["finished"] not in fin:
    known = F9 if (m.stale_undecided and s["finished"] is True and
                   m.runs >= m.min_rep) else None
    viol.append(_v("finished_flag", i, "finished",
                   "finished=%s after run %d, model %s (min_repetitions=%d, "
                   "states %s)" % (s["finished"], k + 1, sorted(fin),
                                   m.min_rep, s["state"]), known=known))
  if s["ret"] is not s["finished"] and s["ret"] != s["finished"]:
    viol.append(_v("run_return", i, "ret", "Run returned %r but finished=%r" %
                   (s["ret"], s["finished"])))
  if s["failed"] not in m.failed():
    viol.append(_v("failed_flag", i, "failed",
                   "Failed()=%s after run %d, model %s" %
                   (s["failed"], k + 1, sorted(m.failed()))))
  if s["runs"] != m.runs:
    viol.append(_v("run_counter", i, "runs", "runs=%d, model %d" %
                   (s["runs"], m.runs)))
  probe("structure_step")


# ----------------------------------------------------------------------------
# e2e profile
# ----------------------------------------------------------------------------

GOOD = ("shake128", "pcg64", "philox")
# (generator, test prefix, minimal documented size in bits)
WEAK_CLAIMS = []
for _g in ("trunclcg16", "trunclcg20", "trunclcg28", "trunclcg32",
           "trunclcg64", "trunclcg128", "lehmer128", "lehmer128/16", "java",
           "mwc64", "mwc128", "mwc256"):
  WEAK_CLAIMS.append((_g, "FindBias", 2**16))
for _g in ("xorshift128+", "xorshift*", "xorwow"):
  WEAK_CLAIMS.append((_g, "LinearComplexityScatter", 2**16))
WEAK_CLAIMS += [("xorwow", "LargeBinaryMatrixRank", 2**18),
                ("xorshift*", "LargeBinaryMatrixRank", 2**22)]

CHEAP_PREFIXES = ["Frequency", "BlockFrequency", "Runs", "LongestRuns",
                  "BinaryMatrixRank", "Spectral", "NonOverlapping",
                  "Overlapping", "Universal", "Serial", "ApproximateEntropy",
                  "RandomWalk", "LargeBinaryMatrixRank"]


def _gen_e2e(r, tier):
  u = r.random()
  if u < 0.45:
    gen, prefix, nmin = r.choice(WEAK_CLAIMS)
    n = nmin * r.choice([1, 1, 4] if prefix != "LargeBinaryMatrixRank"
                        else [1, 1, 2])
    if prefix == "FindBias" and n > 2**18:
      n = 2**18
    if r.random() < 0.4:
      # sizes between the powers of two as well (calibrated on the pinned
      # tree: 68 of 68 detections at random sizes)
      hi = 2 * nmin if prefix == "LargeBinaryMatrixRank" else 4 * nmin
      n = r.randrange(nmin, min(hi, 2**18 if prefix == "FindBias" else hi))
    if prefix == "LinearComplexityScatter" and r.random() < 0.5:
      # the shorter prefix is a full test name itself and still selects the
      # scatter tests
      prefix = "LinearComplexity"
    op = {"op": "weak", "gen": gen, "prefix": prefix, "n": n,
          "entry": r.choice(["source", "bitstring"]),
          "seeds": [r.getrandbits(40) | 1 for _ in range(8)]}
  else:
    gen = r.choice(GOOD)
    v = r.random()
    # measured: a full pass of all 24 tests costs 40 s at 2^20 and 60 s at
    # 2^24 bits (FindBias dominates), every other prefix a few seconds
    if v < 0.30:
      prefix, n = None, r.choice([2**20, 2**21, 2**22, 2**23, 2**24])
    elif v < 0.45:
      prefix, n = "LinearComplexity", r.choice([2**20, 2**22, 2**23, 2**24])
    elif v < 0.55:
      prefix, n = "ApproximateEntropy", r.choice([2**20, 2**23, 2**24])
    elif v < 0.60:
      prefix, n = "FindBias", r.choice([2**20, 2**22])
    else:
      prefix = r.choice(CHEAP_PREFIXES)
      n = r.choice([2**20, 2**21, 2**22, 2**23, 2**24])
    op = {"op": "good", "gen": gen, "prefix": prefix, "n": n,
          "entry": r.choice(["source", "bitstring"]),
          "seeds": [r.getrandbits(40) | 1 for _ in range(8)]}
  ops = [op]
  # one process lifetime may hold several suite calls: an earlier call on a
  # short input (tests raise InsufficientDataError), an earlier call that
  # dies of an allocation failure, or simply the same kind of call twice
  u = r.random()
  seeds = lambda: [r.getrandbits(40) | 1 for _ in range(8)]
  if u < 0.20:
    ops.insert(0, {"op": "free", "gen": r.choice(GOOD + ("xorshift128+",)),
                   "prefix": r.choice([None, op["prefix"], "Large",
                                       "LinearComplexity", "RandomWalk"]),
                   "n": r.choice([64, 1000, 2048, 4096, 2**14]),
                   "entry": r.choice(["source", "bitstring"]),
                   "seeds": seeds()})
  elif u < 0.35:
    ops.insert(0, {"op": "free", "gen": op["gen"], "prefix": op["prefix"],
                   "n": op["n"] if op["n"] <= 2**22 else 2**20,
                   "entry": op["entry"], "seeds": seeds(),
                   "call_fail": int(2 ** (r.random() * 10)) - 1})
  elif u < 0.55 and op["op"] == "good" and op["n"] <= 2**22:
    ops.insert(0, dict(op, seeds=seeds()))
  return {"engine": "C", "property": PROPERTY, "profile": "e2e",
          "clock_seed": r.getrandbits(32), "ops": ops}


SWEEP_PREFIXES = ["LargeBinaryMatrixRank", "Frequency", "Runs", "LongestRuns",
                  "BinaryMatrixRank", "Serial", "ApproximateEntropy",
                  "RandomWalk", "LinearComplexityScatter", "Universal",
                  "Spectral", "NonOverlapping", "Overlapping", "BlockFrequency"]


def _gen_faultsweep(r, tier):
  """Fault enumeration at function-entry granularity for cheap suite calls:
  the call dies of a MemoryError at its k-th library function entry, the
  caller carries on, the same kind of call on fresh bits must behave."""
  prefix = r.choice(SWEEP_PREFIXES)
  k = r.choice([r.randrange(0, 64), r.randrange(0, 400),
                int(2 ** (r.random() * 12))])
  gen = r.choice(GOOD)
  n = r.choice([2**20, 2**20, 2**21])
  seeds = lambda: [r.getrandbits(40) | 1 for _ in range(8)]
  entry = r.choice(["source", "bitstring"])
  ops = [{"op": "free", "gen": gen, "prefix": prefix, "n": n, "entry": entry,
          "seeds": seeds(), "call_fail": k},
         {"op": "good", "gen": gen, "prefix": prefix, "n": n,
          "entry": r.choice(["source", "bitstring"]), "seeds": seeds()}]
  if r.random() < 0.3:
    ops.append({"op": "good", "gen": r.choice(GOOD), "prefix": prefix, "n": n,
                "entry": entry, "seeds": seeds()})
  return {"engine": "C", "property": PROPERTY, "profile": "e2e",
          "sub_profile": "faultsweep", "clock_seed": r.getrandbits(32),
          "ops": ops}


CALIB_PREFIXES = ["RandomWalk"] * 10 + [
    "Frequency", "BlockFrequency", "Runs", "LongestRuns", "BinaryMatrixRank",
    "NonOverlapping", "Overlapping", "Universal", "Serial",
    "ApproximateEntropy"]


def _gen_calib(r, tier):
  """Calibration of the first clause of the statement ('the fraction of
  p-values at or below alpha does not exceed alpha by more than sampling
  error'): one process lifetime holds many single-pass suite calls of one cheap
  test each on 2^20 fresh bits of a cryptographic generator. The p-values of
  all lifetimes are pooled per sub-test by cross_run. RandomWalk is weighted
  up: it is the test whose set of sub-tests depends on the data (the cycle
  count), which a change seeded in round 3 exploited at a rate of about one
  seed in 500."""
  ops = []
  for _ in range(32):
    ops.append({"op": "good", "gen": r.choice(GOOD),
                "prefix": r.choice(CALIB_PREFIXES), "n": 2**20,
                "entry": "bitstring" if r.random() < 0.85 else "source",
                "seeds": [r.getrandbits(40) | 1 for _ in range(8)]})
  return {"engine": "C", "property": PROPERTY, "profile": "e2e",
          "sub_profile": "calib", "clock_seed": r.getrandbits(32), "ops": ops}


def _subject_e2e(plan):
  import warnings
  warnings.simplefilter("ignore")
  from paranoid_crypto.lib.randomness_tests import random_test_suite as rts
  from paranoid_crypto.lib.randomness_tests import rng
  clock = seams.SimClock(plan["clock_seed"])
  seams.install_clock(clock)
  events = []
  for op in plan["ops"]:
    gen = rng.GetRng(op["gen"])
    pulls = []

    def source(n, pulls=pulls, op=op, gen=gen):
      if len(pulls) >= MAX_ROUNDS:
        # a call on an input below the statement's sizes may never decide
        # (e.g. a test that returns the same borderline p-value every round)
        raise _Overrun("source pulled more than %d times" % MAX_ROUNDS)
      seed = op["seeds"][len(pulls) % len(op["seeds"])] + len(pulls)
      pulls.append(seed)
      return gen.RandomBits(n, seed=seed)

    # capture the per-test structures to read the p-values
    captured = []
    orig_ts = rts.TestStructure

    class Capturing(orig_ts):

      def __init__(self, *a, **kw):
        super().__init__(*a, **kw)
        captured.append(self)

    rts.TestStructure = Capturing
    ev = {"op": op["op"]}
    cf = None
    if "call_fail" in op:
      cf = seams.CallFault()
      cf.arm(["paranoid_crypto.lib.randomness_tests." + m for m in
              ("random_test_suite", "nist_suite", "extended_nist_suite",
               "lattice_suite", "util", "berlekamp_massey")], op["call_fail"])
    try:
      if op["entry"] == "source":
        ret = rts.TestSource(source, op["n"], test_prefix=op["prefix"],
                             log_level=1)
      else:
        ret = rts.TestBitString(source(op["n"]), op["n"],
                                test_prefix=op["prefix"], log_level=1)
      ev["ret"] = ret if isinstance(ret, bool) or ret is None else repr(ret)
    except _Overrun as ex:
      ev["exc"] = "Overrun: %s" % ex
      ev["overrun"] = True
    except Exception as ex:  # pylint: disable=broad-except
      ev["exc"] = "%s: %s" % (type(ex).__name__, str(ex)[:160])
    finally:
      rts.TestStructure = orig_ts
      if cf is not None:
        ev["fault_fired"] = cf.fired
        cf.heal()
    ev["pulls"] = len(pulls)
    ev["tests"] = [{"name": t.test_name, "runs": t.runs,
                    "finished": bool(t.finished),
                    "state": {k: v.name for k, v in t.state.items()},
                    "pvals": {k: [float(x) for x in v]
                              for k, v in t.p_values.items()}}
                   for t in captured]
    events.append(ev)
  return {"events": events, "clock": clock.stats(), "tests_restored": True}


def judge_e2e(plan, res):
  viol = []
  st = {"ops": {}, "rounds": 0, "pvalues": [], "weak_detected": 0,
        "good_passed": 0, "clock_calls": res["clock"]["calls"],
        "clock_backward": res["clock"]["backward_jumps"],
        "clock_span_s": res["clock"]["span_s"], "trajectories": set(),
        "probes": {}, "structure_runs": 0, "ties": 0,
        "insufficient_fired": 0, "source_faults_fired": 0}
  for i, (op, ev) in enumerate(zip(plan["ops"], res["events"])):
    st["ops"][op["op"]] = st["ops"].get(op["op"], 0) + 1
    st["rounds"] += ev["pulls"]
    if ev.get("fault_fired"):
      st["probes"]["call_fault_fired"] = \
          st["probes"].get("call_fault_fired", 0) + 1
      continue      # the faulted call is not judged; the following ones are
    if ev.get("overrun") and op["op"] != "free":
      viol.append(_v("liveness", i, "e2e",
                     "%s on %d bits of %s (prefix %s) still undecided after "
                     "%d rounds" % (op["entry"], op["n"], op["gen"],
                                    op["prefix"], MAX_ROUNDS)))
      continue
    if "exc" in ev and op["op"] == "free":
      # inputs below the statement's sizes (2^16 / 2^20 bits): some tests
      # raise a plain ValueError there; this call is only "earlier work"
      st["probes"]["short_input_call_raised"] = \
          st["probes"].get("short_input_call_raised", 0) + 1
      continue
    if "exc" in ev:
      viol.append(_v("driver_raises", i, "e2e", "%s on %s raised %s" %
                     (op["entry"], op["gen"], ev["exc"])))
      continue
    ran = [t for t in ev["tests"] if t["runs"]]
    st["structure_runs"] += sum(t["runs"] for t in ran)
    failed_sub = [(t["name"], k) for t in ran for k, v in t["state"].items()
                  if v == "FAILED"]
    # the entry point's return value follows its own states
    if bool(ev["ret"]) != bool(failed_sub):
      viol.append(_v("entry_return", i, "e2e",
                     "%s returned %r but failed sub-tests=%s" %
                     (op["entry"], ev["ret"], failed_sub[:4])))
    # decision rule on real p-values (independent Fisher)
    fail = 1e-9
    repeat = 0.01 if op["entry"] == "source" else fail
    for t in ran:
      for name, pv in t["pvals"].items():
        adm, _ = classify(pv, fail, repeat)
        if t["state"].get(name) not in adm:
          viol.append(_v("substate", i, "e2e",
                         "%s/%s is %s with p-values %s; rule says %s" %
                         (t["name"], name, t["state"].get(name), pv,
                          sorted(adm))))
        if op["op"] == "good":
          st["pvalues"].append(["%s|%s" % (t["name"], name),
                                [float(x) for x in pv]])
    st["trajectories"].add(repr((op["gen"], op["prefix"], op["n"], op["entry"],
                                 sorted(set(s for t in ran
                                            for s in t["state"].values())))))
    if op["op"] == "free":
      continue
    if op["op"] == "good":
      if ev["ret"]:
        viol.append(_v("good_generator_fails", i, op["gen"],
                       "%s on %d bits of seeded %s (prefix %s) reports "
                       "failure: %s" % (op["entry"], op["n"], op["gen"],
                                        op["prefix"], failed_sub[:4]),
                       {"seeds": op["seeds"][:2]}))
      else:
        st["good_passed"] += 1
    else:
      if not ran:
        viol.append(_v("weak_generator_not_tested", i, op["prefix"],
                       "no %s test ran for %s on %d bits" %
                       (op["prefix"], op["gen"], op["n"])))
      elif not ev["ret"]:
        viol.append(_v("weak_generator_passes", i,
                       "%s:%s" % (op["gen"], op["prefix"]),
                       "%s on %d bits of %s: the documented test %s does not "
                       "report failure (states %s)" %
                       (op["entry"], op["n"], op["gen"], op["prefix"],
                        [t["state"] for t in ran][:3]),
                       {"seeds": op["seeds"][:2]}))
      else:
        st["weak_detected"] += 1
  st["trajectories"] = sorted(st["trajectories"])
  return viol, st


# ----------------------------------------------------------------------------
# engine interface
# ----------------------------------------------------------------------------


def execute(plan, timeout=None):
  if plan["profile"] == "e2e":
    res = core.run_in_child(_subject_e2e, (plan,), timeout or 1500.0,
                            "engineC e2e")
    viol, st = core.run_in_child(judge_e2e, (plan, res), 600.0,
                                 "engineC judge")
    events = [{k: v for k, v in ev.items()} for ev in res["events"]]
  else:
    res = core.run_in_child(_subject, (plan,), timeout or 300.0,
                            "engineC driver")
    viol, st = core.run_in_child(judge_driver, (plan, res), 600.0,
                                 "engineC judge")
    events = res["events"]
  return events, viol, st


def directed_plans(prop, profile):
  if profile != "driver":
    return []
  f9 = {"engine": "C", "property": PROPERTY, "profile": "driver",
        "clock_seed": 9,
        "ops": [{"op": "teststructure", "fail": 1e-9, "repeat": 0.01,
                 "min_rep": 1,
                 "test": {"name": "StubWalk", "params": [],
                          "script": [{"named": [["excursion", 0.005],
                                                ["walk", 0.5]]},
                                     {"named": [["walk", 0.5]]},
                                     {"named": [["excursion", 0.9],
                                                ["walk", 0.5]]}]}}]}
  return [("directed-F9", f9)]


def _binom_tail(n, p, k):
  """P[Bin(n, p) >= k] (exact, 60 digits)."""
  if k <= 0:
    return mpmath.mpf(1)
  if n > 400:
    # the same quantity as a regularised incomplete beta function:
    # P[Bin(n, p) >= k] = I_p(k, n - k + 1); one call instead of n - k terms
    return mpmath.betainc(k, n - k + 1, 0, mpmath.mpf(p), regularized=True)
  q = mpmath.mpf(0)
  for j in range(k, n + 1):
    q += mpmath.binomial(n, j) * mpmath.mpf(p) ** j * \
        (1 - mpmath.mpf(p)) ** (n - j)
  return q


def cross_run(prop, results):
  """'p-values are not systematically small': over all end-to-end runs on the
  good generators, per sub-test, the number of p-values <= alpha must be
  compatible with Bin(N, alpha) (one-sided, level 1e-9, so that this check
  itself has a negligible false-alarm rate)."""
  pv = {}
  for r in results:
    if not r["ok"] or r["profile"] not in ("e2e", "calib"):
      continue
    for name, vals in r["stats"].get("pvalues", []):
      pv.setdefault(name, []).extend(vals)
  # families of sub-tests of one test (e.g. the 18 excursion-variant states):
  # one Bonferroni-corrected value min(1, m * p_min) per run is a valid
  # p-value whatever the dependence inside the family
  fam = {}
  for r in results:
    if not r["ok"] or r["profile"] != "e2e":
      continue
    groups = {}
    for name, vals in r["stats"].get("pvalues", []):
      test, _, sub = name.partition("|")
      key = test + "|" + "".join("#" if ch.isdigit() else ch for ch in sub)
      groups.setdefault(key, []).append(min(vals))
    for key, mins in groups.items():
      if len(mins) >= 3:
        fam.setdefault("family " + key, []).append(
            min(1.0, len(mins) * min(mins)))
  pv.update(fam)
  viol = []
  for name in sorted(pv):
    vals = pv[name]
    n = len(vals)
    if n < 8:
      continue
    # the deeper levels only where the population is large enough for them to
    # mean something (the calibration profile); measured on the pinned tree
    # with 3600 seeds x 363 sub-tests x these four levels: smallest tail 2.5e-4
    for alpha in (0.01, 0.001) + ((1e-4, 1e-5) if n >= 2000 else ()):
      k = sum(1 for x in vals if x <= alpha)
      tail = _binom_tail(n, alpha, k)
      if tail < mpmath.mpf("1e-9"):
        viol.append(_v("pvalues_systematically_small", None, name,
                       "%s: %d of %d p-values on cryptographic generators are "
                       "<= %g (binomial tail %.3g)" %
                       (name, k, n, alpha, float(tail)),
                       {"alpha": alpha, "count": k, "n": n,
                        "smallest": sorted(vals)[:8]}))
        break
  return viol


def minimise(plan, violation, deadline):
  from dst import runner
  if plan["profile"] == "e2e":
    return plan

  def with_ops(ops):
    p = dict(plan)
    p["ops"] = ops
    return p

  def test(ops):
    try:
      _, viols, _ = execute(with_ops(ops), timeout=120.0)
    except core.HarnessError:
      return False
    return any(v["key"] == violation["key"] for v in viols)

  small = with_ops(runner.ddmin(plan["ops"], test, deadline))
  # drop tests of a testsource op
  for k, op in enumerate(list(small["ops"])):
    if "tests" in op and len(op["tests"]) > 1:
      def test_tests(ts, k=k, op=op):
        o2 = dict(op)
        o2["tests"] = ts
        return test(small["ops"][:k] + [o2] + small["ops"][k + 1:])
      ts = runner.ddmin(op["tests"], test_tests, deadline)
      if len(ts) < len(op["tests"]):
        o2 = dict(op)
        o2["tests"] = ts
        small["ops"][k] = o2
  return small


def sample_history(plan, limit=3):
  ops = []
  for op in plan["ops"][:limit]:
    o = dict(op)
    if "tests" in o:
      o["tests"] = [{"name": t["name"], "script": t["script"][:4]}
                    for t in o["tests"][:2]]
    if "test" in o:
      o["test"] = {"name": o["test"]["name"], "script": o["test"]["script"][:5]}
    ops.append(o)
  return {"engine": "C", "profile": plan["profile"], "ops": ops}


def coverage(prop, results):
  agg = {"ops": {}, "probes": {}}
  traj = set()
  pvals = {}
  for r in results:
    s = r["stats"]
    for k in ("rounds", "structure_runs", "ties", "insufficient_fired",
              "source_faults_fired", "clock_calls", "clock_backward",
              "weak_detected", "good_passed"):
      agg[k] = agg.get(k, 0) + s.get(k, 0)
    agg["clock_span_s"] = agg.get("clock_span_s", 0.0) + s.get(
        "clock_span_s", 0.0)
    for d in ("ops", "probes"):
      for k, v in s.get(d, {}).items():
        agg[d][k] = agg[d].get(k, 0) + v
    traj.update(s.get("trajectories", []))
    for name, pv in s.get("pvalues", []):
      pvals.setdefault(name, []).extend(pv)
  agg["pvalue_population"] = sum(len(v) for v in pvals.values())
  agg["clock_span_s"] = round(agg.get("clock_span_s", 0.0), 1)
  return {
      "evaluations": agg.get("structure_runs", 0),
      "distinct_nontrivial": len(traj),
      "rule": "engine C: one evaluation = one Run() of a decision structure "
              "judged against the reference model (driver profile: scripted "
              "p-values; e2e profile: real tests); distinct = distinct "
              "per-sub-test state trajectories (driver) or distinct "
              "(generator, test, size, entry point, state set) (e2e)",
      "samples": [r["sample"] for r in results[:2]],
      "counts": agg,
      "fault_kinds": {"InsufficientDataError on j-th run":
                      agg.get("insufficient_fired", 0),
                      "Source raises": agg.get("source_faults_fired", 0),
                      "clock backward jumps": agg.get("clock_backward", 0)},
      "components": {"TestStructure/TestSource/TestBitString/CombinedPValue":
                     "real", "statistical tests": "stubs (driver) / real (e2e)",
                     "Berlekamp-Massey": "real C++ via ctypes shim",
                     "time.time": "SimClock"},
      "pvalue_subtests": len(pvals),
  }
