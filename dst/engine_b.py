"""Engine B: cache histories on EcCurve objects (C10).

Subjects are the named curve singletons and freshly constructed tiny
prime-order curves (public EcCurve constructor: real code, not a stub) on
which every discrete log is enumerable.  One run interleaves BatchDL /
BatchDLOfDifferences / BatchMultiplyG calls of different sizes on the same
objects, with restarts and allocation failures inside the table build, and
checks every planted log against independent arithmetic.
"""

import math
import random
import re

import gmpy2

from dst import artifacts as A
from dst import core

PROPERTY = "C10"

ASSUMPTIONS = [
    "tiny curves are built with the public EcCurve constructor from brute-force "
    "point counts (prime group order, cofactor 1)",
    "ground truth uses an independent affine implementation (dst/artifacts.py "
    "MiniCurve); results are compared modulo the group order",
    "allocation failures are injected at the library's own internal call "
    "boundaries (PointSequence / BatchAddX / Multiply) by wrapping the methods; "
    "the failed call is not judged, every later call is",
]

NAMED = ("secp256r1", "secp256k1", "secp224r1", "brainpoolP256r1",
         "secp384r1", "secp521r1", "brainpoolP384r1", "brainpoolP512r1",
         "secp192r1")


# ----------------------------------------------------------------------------
# tiny prime-order curves
# ----------------------------------------------------------------------------


def _legendre_table(p):
  sq = {}
  for y in range(p):
    sq.setdefault(y * y % p, []).append(y)
  return sq


def tiny_curve(r):
  """Returns dict(p,a,b,gx,gy,n) of a random curve with prime order."""
  while True:
    p = int(gmpy2.next_prime(r.randint(150, 3500)))
    sq = _legendre_table(p)
    for _ in range(40):
      a, b = r.randrange(p), r.randrange(1, p)
      if (4 * a * a * a + 27 * b * b) % p == 0:
        continue
      count = 1
      first = None
      for x in range(p):
        ys = sq.get((x * x * x + a * x + b) % p)
        if ys:
          count += len(ys)
          if first is None and ys[0] != 0:
            first = (x, ys[0])
      if count > 100 and gmpy2.is_prime(count) and count != p and first:
        return {"p": p, "a": a, "b": b, "gx": first[0], "gy": first[1],
                "n": count}


def mini_of(cdesc):
  if "tiny" in cdesc:
    t = cdesc["tiny"]
    return A.MiniCurve(-1, "tiny", t["a"], t["b"], t["p"], t["gx"], t["gy"],
                       t["n"])
  return A.curve_by_name(cdesc["name"])


# ----------------------------------------------------------------------------
# plan generation
# ----------------------------------------------------------------------------


def _edge_xs(r, n, length, cached_hint=0):
  """x values biased to table / giant-step boundaries of (n, length)."""
  ts = int(math.sqrt(n * length))
  t = max(1, 2 * ts - 1)
  cands = [0, 1, 2, n - 1, n - 2, ts - 1, ts, ts + 1, t - 1, t, t + 1,
           2 * t - 1, 2 * t, 2 * t + 1, (n // t) * t, (n // t) * t - 1,
           (n // t) * t + 1, (n // t + 1) * t - ts, n // 2]
  cands = [x for x in cands if 0 <= x < n]
  out = []
  for _ in range(length):
    u = r.random()
    if cands and u < 0.55:
      out.append(r.choice(cands))
    elif u < 0.65 and t > 1:
      j = r.randint(0, n // t + 1)
      x = j * t + r.choice([0, 1, -1, ts - 1, -(ts - 1), ts])
      out.append(x if 0 <= x < n else r.randrange(n))
    elif u < 0.92:
      out.append(r.randrange(n))
    else:
      out.append(n + r.randrange(0, max(2, n)))   # out of range: no promise
  return out


def gen_plan(run_seed, tier="quick", profile="tiny", focus=None):
  r = random.Random(run_seed)
  curves = []
  if profile == "tiny":
    for _ in range(r.randint(1, 2)):
      curves.append({"tiny": tiny_curve(r)})
  else:
    for name in r.sample(NAMED, r.randint(1, 2)):
      curves.append({"name": name})
  orders = [int(mini_of(c).n) for c in curves]
  ops = []
  length = r.randint(3, 14) if tier == "quick" else r.randint(5, 24)
  fault_left = 1 if r.random() < 0.25 else 0
  for _ in range(length):
    ci = r.randrange(len(curves))
    order = orders[ci]
    u = r.random()
    if u < 0.45:
      if profile == "tiny":
        n = r.choice([1, 2, 3, r.randint(1, order), r.randint(1, order),
                      order, order + 1, r.randint(order, 3 * order)])
        ln = r.choice([1, 1, 2, 3, r.randint(1, 12), r.randint(1, 40)])
        if r.random() < 0.5:
          ln = max(ln, -(-min(n, 3 * order) // 300))
          ops.append({"op": "batchdl_exh", "curve": ci, "n": n, "L": ln})
          continue
      else:
        n = r.choice([2 ** r.randint(4, 22), r.randint(1, 2**20),
                      r.randint(1, 5000)])
        ln = r.choice([1, 1, 2, 3, r.randint(1, 12), r.randint(1, 40)])
      ops.append({"op": "batchdl", "curve": ci, "n": n,
                  "xs": _edge_xs(r, n, ln)})
    elif u < 0.80:
      if profile == "tiny":
        md = r.choice([1, 2, 3, r.randint(1, max(2, order // 4)),
                       r.randint(1, max(2, order // 2))])
        hi = order
      else:
        md = 2 ** r.randint(2, 14) + r.choice([0, 0, 1, -1])
        hi = order
      k = r.randint(1, 7)
      ds = []
      base = r.randrange(1, hi)
      for _ in range(k):
        v = r.random()
        if v < 0.45:
          ds.append((base + r.choice([1, -1]) * r.choice(
              [1, 2, max(1, md - 1), max(1, md // 2), r.randint(1, md)]))
                    % order)
        elif v < 0.60:
          ds.append(base)                     # identical key
        elif v < 0.75:
          ds.append((base + r.choice([1, -1]) * r.choice([md, md + 1, 2 * md]))
                    % order)
        else:
          ds.append(r.randrange(1, hi))
        if r.random() < 0.5:
          base = ds[-1] or 1
      ds = [d for d in ds if d % order != 0] or [1]
      other = []
      if r.random() < 0.4:
        for _ in range(r.randint(1, 4)):
          other.append((r.choice(ds) + r.choice([0, 1, -1, md - 1, md, 5 * md])
                        ) % order or 1)
      if r.random() < 0.15:
        ds = ds[:1]
        other = other[:r.randint(0, 1)]
      ops.append({"op": "diffs", "curve": ci, "ds": ds, "other": other,
                  "max_diff": md})
    elif u < 0.86:
      bits = orders[ci].bit_length()
      ops.append({"op": "mulg", "curve": ci,
                  "scalars": [r.getrandbits(bits + 4) for _ in range(
                      r.randint(1, 5))]})
    elif u < 0.93:
      ops.append({"op": "restart"})
    elif u < 0.95:
      # non-gating probe: asynchronous abort (Ctrl-C / signal timeout) at the
      # k-th line event inside the next table-building call
      ops.append({"op": "abort", "fn": r.choice(["BatchDL", "PointTable",
                                                 "BatchDLOfDifferences",
                                                 "PointSequence"]),
                  "k": r.randint(0, 45)})
    elif fault_left:
      fault_left = 0
      ops.append({"op": "fault", "kind": "alloc_fail",
                  "method": r.choice(["PointSequence", "PointSequence",
                                      "BatchAddX", "Multiply"]),
                  "k": r.randint(0, 3)})
      # a call that (re)builds a table, so the fault lands inside the build
      n = (orders[ci] if profile == "tiny" else 2 ** r.randint(14, 20))
      md = max(2, orders[ci] // 3) if profile == "tiny" else \
          2 ** r.randint(10, 15)
      d0 = r.randrange(1, orders[ci])

      def table_call():
        if r.random() < 0.5:
          return {"op": "batchdl", "curve": ci, "n": n,
                  "xs": _edge_xs(r, n, r.randint(1, 4))}
        return {"op": "diffs", "curve": ci, "other": [], "max_diff": md,
                "ds": [d0, (d0 + r.randint(1, md - 1)) % orders[ci] or 1,
                       r.randrange(1, orders[ci])]}

      ops.append(table_call())
      ops.append({"op": "heal"})
      ops.append(table_call())
  if not any(o["op"] in ("batchdl", "batchdl_exh", "diffs") for o in ops):
    n = orders[0] if profile == "tiny" else 4096
    ops.append({"op": "batchdl", "curve": 0, "n": n, "xs": _edge_xs(r, n, 3)})
  return {"engine": "B", "property": PROPERTY, "profile": profile,
          "curves": curves, "ops": ops}


def directed_plans(prop, profile):
  """Batch scale for BatchDLOfDifferences (a change seeded in round 6 scanned
  the comparison list in blocks of 2^16 and lost one entry per block): a
  history of more than 2^17 far-apart keys given as an arithmetic progression,
  new keys planted next to the entries around every power of two from 2^12."""
  if profile != "named":
    return []
  stride = 2**200 + 0x1234567
  count = 2**17 + 11
  planted = []
  for e in (0, 12, 14, 15, 16, 17):
    for pos in ((2**e - 1, 2**e, 2**e + 1) if e else (0, 7)):
      planted.append([pos, 5 if (pos + e) % 2 else -3])
  planted.append([2**16 + 2**15, 9])
  planted.append([count - 1, 1])
  plan = {"engine": "B", "property": PROPERTY, "profile": "named",
          "curves": [{"name": "secp256r1"}],
          "ops": [{"op": "diffs_ap", "curve": 0, "stride": stride,
                   "count": count, "planted": planted, "far": [stride // 2],
                   "max_diff": 1024}]}
  return [("directed-long-history", plan)]


# ----------------------------------------------------------------------------
# execution (forked child)
# ----------------------------------------------------------------------------


def _lib_curve(cdesc):
  from paranoid_crypto.lib import ec_util
  if "tiny" in cdesc:
    t = cdesc["tiny"]
    return ec_util.EcCurve("tiny", t["a"], t["b"], t["p"], t["gx"], t["gy"],
                           t["n"])
  for c in ec_util.CURVE_FACTORY.values():
    if c is not None and c.name == cdesc["name"]:
      return c
  raise core.HarnessError("curve %r not in CURVE_FACTORY" % (cdesc,))


def _pt(m, d):
  p = m.mul(d)
  return (None, None) if p is None else (p[0], p[1])


class _Abort(BaseException):
  """Asynchronous interruption injected at a line event."""


class _LineAbort:
  """sys.monitoring LINE events on one EcCurve method: raise at the k-th."""

  TOOL = 4

  def __init__(self):
    import sys as _sys
    self.mon = _sys.monitoring
    self.code = None
    self.left = 0
    self.fired = 0
    try:
      self.mon.use_tool_id(self.TOOL, "dst-abort")
    except ValueError:
      pass
    self.mon.register_callback(self.TOOL, self.mon.events.LINE, self._line)

  def arm(self, fn, k):
    from paranoid_crypto.lib import ec_util
    self.disarm()
    self.code = getattr(ec_util.EcCurve, fn).__code__
    self.left = k
    self.mon.set_local_events(self.TOOL, self.code, self.mon.events.LINE)

  def disarm(self):
    if self.code is not None:
      self.mon.set_local_events(self.TOOL, self.code, 0)
      self.code = None

  def _line(self, code, line):
    if code is not self.code:
      return None
    if self.left <= 0:
      self.fired += 1
      self.disarm()
      raise _Abort("asynchronous abort at line %d" % line)
    self.left -= 1
    return None


def _segment(plan, start):
  from dst import seams
  fault = seams.AllocFault()
  fault.install()
  aborter = None
  minis = [mini_of(c) for c in plan["curves"]]
  libs = [_lib_curve(c) for c in plan["curves"]]
  events = []
  i = start
  nxt = None
  ops = plan["ops"]
  while i < len(ops):
    op = ops[i]
    kind = op["op"]
    ev = {"i": i}
    if kind == "restart":
      nxt = i + 1
      events.append(ev)
      break
    if kind == "fault":
      fault.arm(op["method"], op["k"])
      events.append(ev)
      i += 1
      continue
    if kind == "heal":
      fault.heal()
      events.append(ev)
      i += 1
      continue
    if kind == "abort":
      if aborter is None:
        aborter = _LineAbort()
      aborter.arm(op["fn"], op["k"])
      events.append(ev)
      i += 1
      continue
    m, lib = minis[op["curve"]], libs[op["curve"]]
    ev["cached_before"] = int(lib._table_size)  # pylint: disable=protected-access
    fired0 = fault.fired
    try:
      if kind == "batchdl":
        pts = [_pt(m, x) for x in op["xs"]]
        ev["res"] = [None if v is None else int(v)
                     for v in lib.BatchDL(pts, op["n"])]
      elif kind == "batchdl_exh":
        n, ln = op["n"], op["L"]
        order = int(m.n)
        res = []
        xs_all = list(range(min(n, 3 * order)))
        for s in range(0, len(xs_all), ln):
          chunk = xs_all[s:s + ln]
          while len(chunk) < ln:
            chunk.append(chunk[-1])
          out = lib.BatchDL([_pt(m, x) for x in chunk], n)
          res += [None if v is None else int(v) for v in out]
        ev["res"] = res[:len(xs_all)]
      elif kind == "diffs":
        pts = [_pt(m, d) for d in op["ds"]]
        oth = [_pt(m, d) for d in op["other"]]
        if oth or op.get("explicit_other"):
          out = lib.BatchDLOfDifferences(pts, oth, op["max_diff"])
        else:
          out = lib.BatchDLOfDifferences(pts, max_diff=op["max_diff"])
        ev["res"] = list(out)
      elif kind == "diffs_ap":
        # the history list itself is laid out with the library's own
        # PointSequence (one addition per entry); the entries next to the
        # planted keys are re-computed by the independent arithmetic
        st = op["stride"]
        hist = lib.PointSequence(lib.Multiply(lib.g, st), op["count"] + 1)[1:]
        for pos, _ in op["planted"]:
          if tuple(int(c) for c in hist[pos]) != tuple(
              int(c) for c in _pt(m, (pos + 1) * st)):
            raise core.HarnessError("history entry %d is not %d*stride*G" %
                                    (pos, pos + 1))
        pts = [_pt(m, (pos + 1) * st + dl) for pos, dl in op["planted"]]
        pts += [_pt(m, d) for d in op["far"]]
        ev["res"] = list(lib.BatchDLOfDifferences(pts, hist, op["max_diff"]))
      elif kind == "mulg":
        out = lib.BatchMultiplyG(op["scalars"])
        ev["res"] = [[None if c is None else int(c) for c in p] for p in out]
      else:
        raise core.HarnessError("unknown op %r" % kind)
    except _Abort as ex:
      ev["aborted"] = str(ex)
    except Exception as ex:  # pylint: disable=broad-except
      ev["exc"] = "%s: %s" % (type(ex).__name__, str(ex)[:120])
    ev["fired"] = fault.fired - fired0
    ev["cached_after"] = int(lib._table_size)  # pylint: disable=protected-access
    events.append(ev)
    i += 1
  if aborter is not None:
    aborter.disarm()
  return {"events": events, "next": nxt}


def execute(plan, timeout=300.0):
  events = []
  start = 0
  segs = 0
  while start is not None:
    seg = core.run_in_child(_segment, (plan, start), timeout,
                            "engineB subject")
    events += seg["events"]
    start = seg["next"]
    segs += 1
  return core.run_in_child(judge, (plan, events, segs), 600.0,
                           "engineB judge")


# ----------------------------------------------------------------------------
# oracle
# ----------------------------------------------------------------------------

_REL = re.compile(r"^key - \(([0-9a-f]+), ([0-9a-f]+)\) = (-?\d+) \* G$")


def _v(invariant, step, key, msg, detail=None):
  return {"property": PROPERTY, "invariant": invariant, "step": step,
          "key": "%s:%s" % (invariant, key), "known": None, "message": msg,
          "detail": detail or {}}


def judge(plan, events, segs):
  viol = []
  st = {"ops": {}, "planted_logs": 0, "planted_pairs": 0, "restarts": segs - 1,
        "faults_fired": 0, "excused": 0, "states": set(),
        "probes": {}}
  minis = [mini_of(c) for c in plan["curves"]]
  kinds = ["tiny" if "tiny" in c else c["name"] for c in plan["curves"]]

  def probe(k):
    st["probes"][k] = st["probes"].get(k, 0) + 1

  after_abort = False
  nviol = 0
  for ev in events:
    # what follows an asynchronous abort is a robustness observation, never a
    # violation (no property promises anything about it, DESIGN 3.5)
    if after_abort:
      for v in viol[nviol:]:
        v["property"] = "ROBUSTNESS"
        v["key"] = "after_abort:" + v["key"]
    nviol = len(viol)
    op = plan["ops"][ev["i"]]
    kind = op["op"]
    st["ops"][kind] = st["ops"].get(kind, 0) + 1
    if kind == "restart":
      after_abort = False
    if kind in ("restart", "fault", "heal", "abort"):
      continue
    if "aborted" in ev:
      after_abort = True
      probe("async_abort_fired")
      continue
    i = ev["i"]
    m = minis[op["curve"]]
    order = int(m.n)
    ck = kinds[op["curve"]]
    if ev.get("fired"):
      st["faults_fired"] += ev["fired"]
      if "exc" in ev:
        st["excused"] += 1
        probe("faulted_call_raised")
        continue
    if "exc" in ev:
      viol.append(_v("raises", i, kind, "%s on %s raised %s" %
                     (kind, ck, ev["exc"])))
      continue
    if kind in ("batchdl", "batchdl_exh"):
      n = op["n"]
      if kind == "batchdl":
        xs, ln = op["xs"], len(op["xs"])
      else:
        xs, ln = list(range(min(n, 3 * order))), op["L"]
      ts = int(math.sqrt(n * ln))
      cached = ev["cached_before"]
      rel = ("none" if cached == 0 else "smaller" if cached < ts else
             "equal" if cached == ts else "larger")
      probe("table_" + rel)
      t = max(1, 2 * ts - 1)
      for x, res in zip(xs, ev["res"]):
        if not 0 <= x < n:
          continue
        st["planted_logs"] += 1
        cls = ("zero" if x == 0 else "multiple_of_t" if x % t == 0 else
               "table_edge" if x % t in (ts - 1, ts, t - ts + 1) else
               "last" if x == n - 1 else "interior")
        st["states"].add(("dl", ck == "tiny", min(ts, 40) if ck == "tiny"
                          else ts.bit_length(), rel, cls))
        if res is None or (res - x) % order != 0:
          viol.append(_v(
              "log_missed" if res is None else "wrong_log", i,
              "%s:%s" % ("tiny" if ck == "tiny" else "named", cls),
              "BatchDL on %s (order %d): x=%d < bound %d, %d points, requested "
              "table %d, cached table before %d -> %s" %
              (ck, order, x, n, ln, ts, cached, res),
              {"curve": plan["curves"][op["curve"]]}))
    elif kind == "diffs_ap":
      res = ev["res"]
      probe("long_history_call")
      for a, (pos, dl) in enumerate(op["planted"]):
        st["planted_pairs"] += 1
        st["states"].add(("diff_ap", pos.bit_length(), dl > 0))
        if res[a] is None:
          viol.append(_v(
              "difference_missed", i, "long_history",
              "BatchDLOfDifferences on %s: a new key differs by %d from entry "
              "%d of a history of %d keys (max_diff=%d) but is not flagged" %
              (ck, dl, pos, op["count"], op["max_diff"])))
      for a in range(len(op["planted"]), len(res)):
        if res[a] is not None:
          viol.append(_v("far_key_flagged", i, "long_history",
                         "a key far from every history entry is flagged: %r" %
                         (res[a],)))
    elif kind == "diffs":
      ds, oth, md = op["ds"], op["other"], op["max_diff"]
      pts = [m.mul(d) for d in ds]
      opts = [m.mul(d) for d in oth]
      allp = pts + opts
      alld = ds + oth
      res = ev["res"]
      rel = ("none" if ev["cached_before"] == 0 else
             "smaller" if ev["cached_before"] < md else
             "equal" if ev["cached_before"] == md else "larger")
      probe("diff_table_" + rel)
      if len(res) != len(ds):
        viol.append(_v("diff_shape", i, "len", "BatchDLOfDifferences returned "
                       "%d results for %d points" % (len(res), len(ds))))
        continue
      for a in range(len(ds)):
        must = False
        only_identical = True
        for b2 in range(len(alld)):
          if b2 == a:
            continue
          k = (ds[a] - alld[b2]) % order
          if k == 0:
            continue
          only_identical = False
          kk = min(k, order - k)
          if kk < md:
            must = True
        st["states"].add(("diff", ck == "tiny", rel, must, bool(oth),
                          len(ds) == 1))
        if must:
          st["planted_pairs"] += 1
          if res[a] is None:
            viol.append(_v(
                "difference_missed", i, "tiny" if ck == "tiny" else "named",
                "BatchDLOfDifferences on %s (order %d): key %d has a partner "
                "within max_diff=%d (keys %s, other %s) but is not flagged; "
                "cached table before %d" %
                (ck, order, ds[a], md, ds, oth, ev["cached_before"])))
        if only_identical and len(alld) > 1 and res[a] is not None:
          viol.append(_v("identical_flagged", i, "dup",
                         "BatchDLOfDifferences flagged a key whose only "
                         "neighbours are identical keys: %r" % (res[a],)))
        if res[a] is not None:
          mm = _REL.match(res[a])
          ok = False
          if mm:
            q = (gmpy2.mpz(int(mm.group(1), 16)), gmpy2.mpz(int(mm.group(2),
                                                                  16)))
            k = int(mm.group(3))
            if any(pp is not None and pp == q for pp in allp):
              lhs = m.add(pts[a], m.neg(q))
              rhs = m.mul(k % order) if k % order else None
              ok = lhs == rhs
          if not ok:
            viol.append(_v("relation_invalid", i, "rel",
                           "BatchDLOfDifferences relation does not verify: %r"
                           % (res[a],)))
    elif kind == "mulg":
      for s, got in zip(op["scalars"], ev["res"]):
        exp = m.mul(s % order)
        exp = [None, None] if exp is None else [int(exp[0]), int(exp[1])]
        if got != exp:
          probe("mulg_mismatch_not_judged_under_C10")
  if after_abort:
    for v in viol[nviol:]:
      v["property"] = "ROBUSTNESS"
      v["key"] = "after_abort:" + v["key"]
  st["states"] = sorted(st["states"], key=repr)
  return events, viol, st


# ----------------------------------------------------------------------------
# minimisation / coverage
# ----------------------------------------------------------------------------


def minimise(plan, violation, deadline):
  from dst import runner

  def with_ops(ops):
    p = dict(plan)
    p["ops"] = ops
    return p

  def test(ops):
    try:
      _, viols, _ = execute(with_ops(ops), timeout=120.0)
    except core.HarnessError:
      return False
    return any(v["key"] == violation["key"] for v in viols)

  return with_ops(runner.ddmin(plan["ops"], test, deadline))


def sample_history(plan, limit=8):
  return {"engine": "B", "curves": plan["curves"],
          "ops": plan["ops"][:limit], "ops_total": len(plan["ops"])}


def coverage(prop, results):
  agg = {"ops": {}, "probes": {}}
  states = set()
  for r in results:
    s = r["stats"]
    for k in ("planted_logs", "planted_pairs", "restarts", "faults_fired",
              "excused"):
      agg[k] = agg.get(k, 0) + s.get(k, 0)
    for d in ("ops", "probes"):
      for k, v in s[d].items():
        agg[d][k] = agg[d].get(k, 0) + v
    states.update(repr(x) for x in s["states"])
  nontrivial = {s for s in states if "'none'" not in s or "'interior'" not in s}
  return {
      "evaluations": agg.get("planted_logs", 0) + agg.get("planted_pairs", 0),
      "distinct_nontrivial": len(nontrivial),
      "rule": "engine B: one evaluation = one planted discrete log (x < bound) "
              "or one planted close pair checked in some call of a cache "
              "history; distinct = distinct (curve class, requested table size "
              "class, cached-table relation none/smaller/equal/larger, position "
              "class of x relative to table and giant-step edges); trivial = "
              "interior x on a curve with no cached table",
      "samples": [r["sample"] for r in results[:2]],
      "counts": agg,
      "fault_kinds": {"alloc_fail(PointSequence|BatchAddX|Multiply)":
                      agg.get("faults_fired", 0),
                      "restart": agg.get("restarts", 0)},
      "components": {"EcCurve (named singletons and tiny curves)": "real",
                     "ground truth arithmetic": "independent MiniCurve"},
  }
