"""Engine A, generation side: pools, histories, knobs, fault schedules.

The plan is generated completely before anything is executed and is plain
JSON-able data (DESIGN 3.1).
"""

import os
import random
import re

from dst import artifacts as A

RSA_SINGLES = ["CheckSizes", "CheckExponents", "CheckROCA", "CheckROCAVariant",
               "CheckFermat", "CheckHighAndLowBitsEqual",
               "CheckOpensslDenylist", "CheckContinuedFractions",
               "CheckBitPatterns", "CheckPermutedBitPatterns",
               "CheckPollardpm1", "CheckLowHammingWeight", "CheckUnseededRand",
               "CheckSmallUpperDifferences", "CheckKeypairDenylist"]
RSA_AGGREGATES = ["CheckGCD", "CheckGCDN1"]
EC_SINGLES = ["CheckValidECKey", "CheckWeakCurve", "CheckWeakECPrivateKey"]
EC_AGGREGATES = ["CheckECKeySmallDifference"]
ECDSA_CHECKS = ["CheckLCGNonceGMP", "CheckLCGNonceJavaUtilRandom",
                "CheckNonceMSB", "CheckNonceCommonPrefix",
                "CheckNonceCommonPostfix", "CheckNonceGeneralized",
                "CheckIssuerKey", "CheckCr50U2f"]
ECDSA_CHEAP = ["CheckNonceMSB", "CheckNonceCommonPrefix",
               "CheckNonceCommonPostfix", "CheckNonceGeneralized",
               "CheckCr50U2f", "CheckLCGNonceGMP"]


def active_names(kind):
  """Names of the active checks as *declared* on the tree under test."""
  from paranoid_crypto.lib import paranoid
  if kind == "rsa":
    return ([c.__name__ for c in paranoid._ACTIVE_RSA_SINGLE_CHECKS],  # pylint: disable=protected-access
            [c.__name__ for c in paranoid._ACTIVE_RSA_AGGREGATE_CHECKS])  # pylint: disable=protected-access
  if kind == "ec":
    return ([c.__name__ for c in paranoid._ACTIVE_EC_SINGLE_CHECKS],  # pylint: disable=protected-access
            [c.__name__ for c in paranoid._ACTIVE_EC_AGGREGATE_CHECKS])  # pylint: disable=protected-access
  return ([c.__name__ for c in paranoid._ACTIVE_ECDSA_SIG_CHECKS], [])  # pylint: disable=protected-access


_DOC_SEV = None


def documented_severities():
  """{check name: severity int}: README table first, else the severity
  attribute of a directly constructed instance (self-consistency)."""
  global _DOC_SEV
  if _DOC_SEV is not None:
    return _DOC_SEV
  from paranoid_crypto import paranoid_pb2
  from paranoid_crypto.lib import paranoid
  from paranoid_crypto.lib import resources
  from dst import engine_a_exec as X
  out = {}
  for kind in ("rsa", "ec", "ecdsa"):
    singles, aggs = active_names(kind)
    for name in singles + aggs:
      try:
        cls = X.find_check_class(name)
        if name in ("CheckOpensslDenylist", "CheckKeypairDenylist",
                    "CheckUnseededRand"):
          obj = cls(paranoid_storage=X.make_storage({"keypair": "empty"}, {}))
        else:
          obj = cls()
        out[name] = int(obj.severity)
      except Exception:  # pylint: disable=broad-except
        pass
  readme = os.path.join(os.path.dirname(resources._ROOT_DIR), "README.md")  # pylint: disable=protected-access
  try:
    with open(readme) as fh:
      for line in fh:
        m = re.match(r"\|\s*(Check\w+)\s*\|[^|]*\|\s*(SEVERITY_\w+)\s*\|",
                     line)
        if m and m.group(2) in paranoid_pb2.SeverityType.keys():
          out[m.group(1)] = int(paranoid_pb2.SeverityType.Value(m.group(2)))
  except OSError:
    pass
  _DOC_SEV = out
  return out


# ----------------------------------------------------------------------------
# focus-dependent weights
# ----------------------------------------------------------------------------

FOCUS = {
    # hist: history length range; oracle: probability that a check step gets
    # FRESH queries; degenerate: weight of degenerate families; fault: prob of
    # a fault episode; preann: weight of pre-annotation / re-run ops
    "C16": dict(hist=(5, 14), oracle=0.08, degenerate=0.15, fault=0.30,
                preann=0.30, healthy=(1, 3)),
    "C17": dict(hist=(4, 10), oracle=0.55, degenerate=0.10, fault=0.20,
                preann=0.05, healthy=(2, 4)),
    "C07": dict(hist=(3, 8), oracle=0.10, degenerate=0.05, fault=0.10,
                preann=0.05, healthy=(4, 9)),
    "C18": dict(hist=(3, 8), oracle=0.10, degenerate=0.60, fault=0.35,
                preann=0.05, healthy=(0, 2)),
    "C10": dict(hist=(3, 8), oracle=0.15, degenerate=0.05, fault=0.05,
                preann=0.05, healthy=(1, 3)),
}


def gen_plan(run_seed, tier, profile, focus):
  r = random.Random(run_seed)
  focus = focus or "C16"
  f = FOCUS.get(focus, FOCUS["C16"])
  if profile == "rsa":
    return _gen_rsa(r, tier, f, focus)
  if profile == "rsa_large":
    return _gen_rsa_large(r, tier, f, focus)
  if profile == "rsa_lhw":
    return _gen_rsa_lhw(r, tier, f, focus)
  if profile == "rsa_huge":
    return _gen_rsa_huge(r, tier, f, focus)
  if profile in ("ec_allcurves", "ecdsa_allcurves"):
    from dst import engine_a_gen_ec as E
    return E.gen_allcurves(r, tier, f, focus, profile.split("_")[0])
  if profile == "ecdsa_large":
    from dst import engine_a_gen_ec as E
    return E.gen_ecdsa_large(r, tier, f, focus)
  if profile == "ecdsa_huge":
    from dst import engine_a_gen_ec as E
    return E.gen_ecdsa_huge(r, tier, f, focus)
  if profile == "ec":
    from dst import engine_a_gen_ec as E
    return E.gen_ec(r, tier, f, focus)
  if profile == "ec_default":
    from dst import engine_a_gen_ec as E
    return E.gen_ec_default(r, tier, f, focus)
  if profile == "ec_big":
    from dst import engine_a_gen_ec as E
    return E.gen_ec_big(r, tier, f, focus)
  if profile == "ecdsa":
    from dst import engine_a_gen_ec as E
    return E.gen_ecdsa(r, tier, f, focus)
  raise ValueError("unknown engine A profile %r" % profile)


# ----------------------------------------------------------------------------
# shared op builders
# ----------------------------------------------------------------------------


def rand_annotation(r, kind, names, art, lib_version="0.9.9"):
  """A synthetic annotation 'from an earlier library run'."""
  entries = []
  pool_names = list(names) + ["CheckRetiredInThisVersion", "CheckFromTheFuture"]
  for name in r.sample(pool_names, r.randint(1, min(6, len(pool_names)))):
    entries.append([name, r.random() < 0.4, r.randrange(0, 5)])
  if r.random() < 0.15 and entries:
    entries.append(list(entries[0]))        # a duplicated entry from "earlier"
  positive = any(e[1] for e in entries)
  u = r.random()
  weak = positive if u < 0.7 else (not positive if u < 0.85 else True)
  infos = []
  if art["t"] == "rsa" and r.random() < 0.5:
    n = int(art["n"], 16) if art["n"] else 0
    facs = set()
    shared = art.get("truth", {}).get("shared")
    if shared and r.random() < 0.7:
      p = int(shared, 16)
      if n % p == 0:
        facs |= {p, n // p}
    if not facs:
      facs = {3, 5} if r.random() < 0.5 else {r.getrandbits(64) | 1}
    infos.append(["N_FACTORS",
                  str({format(x, "x") for x in facs})])
  if art["t"] != "rsa" and r.random() < 0.4:
    infos.append(["DISCRETE_LOG", format(r.getrandbits(64), "x")])
  if r.random() < 0.2:
    infos.append(["NOTE_FROM_PIPELINE", "triaged"])
  ver = r.choice(["", "0.9.9", "1.0.0", lib_version, "2.0.0-dev"])
  return {"weak": bool(weak), "ver": ver, "entries": entries, "infos": infos}


def oracle_items(r, batch, pool, kind, individual, p_oracle, joint_extra=None):
  """FRESH-oracle variants for one step (indices into the pool)."""
  if r.random() >= p_oracle or not batch:
    return []
  items = []
  kinds = ["same", "perm", "alone", "plus"]
  for rel in r.sample(kinds, r.randint(1, 3)):
    if rel == "same":
      items.append({"relation": "same", "order": list(batch)})
    elif rel == "perm" and len(batch) > 1:
      order = list(batch)
      r.shuffle(order)
      items.append({"relation": "perm", "order": order})
    elif rel == "alone":
      for j in r.sample(batch, min(len(batch), 2)):
        items.append({"relation": "alone", "order": [j]})
    elif rel == "plus":
      extra = [j for j, a in enumerate(pool) if a["healthy"] and
               j not in batch and (joint_extra is None or joint_extra(j))]
      if extra:
        extra = r.sample(extra, min(len(extra), r.randint(1, 2)))
        order = list(batch) + extra
        if r.random() < 0.5:
          r.shuffle(order)
        items.append({"relation": "plus", "order": order})
  return items


def oracle_queries(plan):
  qs = []
  for i, op in enumerate(plan["ops"]):
    for it in op.get("oracle", []):
      q_op = {k: v for k, v in op.items() if k not in ("oracle", "batch")}
      q_op["batch"] = list(range(len(it["order"])))
      qs.append({"step": i, "relation": it["relation"], "op": q_op,
                 "arts": [plan["pool"][j] for j in it["order"]],
                 "timeout": plan.get("timeout", 900.0)})
  return qs


def sub_batch(r, n, lo=0, hi=None):
  hi = n if hi is None else min(hi, n)
  k = r.randint(lo, hi)
  return r.sample(range(n), k)


# ----------------------------------------------------------------------------
# RSA
# ----------------------------------------------------------------------------


def _rsa_pool(r, f, focus):
  pool = []
  nh = r.randint(*f["healthy"])
  for _ in range(nh):
    bits = r.choice([2048, 2048, 2048, 3072, 4096]) if focus == "C07" else \
        r.choice([2048, 2048, 2048, 3072])
    pool.append(A.rsa_healthy(r, bits))
  fams = ["shared_prime", "shared_nm1", "fermat", "fermat_deep", "short",
          "bad_exponent",
          "unseeded", "keypair", "low_hamming", "bit_pattern", "roca",
          "denylisted", "triple"]
  enabled = r.sample(fams, r.randint(0 if focus == "C18" else 1, 4))
  deny = {}
  for fam in enabled:
    if fam == "shared_prime":
      pool += A.rsa_shared_prime(r, 2)
    elif fam == "triple":
      pool += A.rsa_shared_prime(r, 3)
    elif fam == "shared_nm1":
      pool += A.rsa_shared_nm1(r, 2)
    elif fam == "fermat":
      pool.append(A.rsa_fermat(r))
    elif fam == "fermat_deep":
      pool.append(A.rsa_fermat_deep(r))
    elif fam == "short":
      pool.append(A.rsa_short(r))
    elif fam == "bad_exponent":
      pool.append(A.rsa_bad_exponent(r))
    elif fam == "unseeded":
      a = A.rsa_unseeded(r)
      if a:
        pool.append(a)
    elif fam == "keypair":
      pool.append(A.rsa_keypair_denylisted(r))
    elif fam == "low_hamming":
      pool.append(A.rsa_low_hamming(r))
    elif fam == "bit_pattern":
      pool.append(A.rsa_bit_pattern(r))
      if r.random() < 0.7:
        # mixed sizes in one batch: per-key limits (pattern sizes, bounds
        # derived from the bit length) must not leak to the neighbours
        pool.append(A.rsa_short(r, r.choice([512, 768, 768, 1024])))
    elif fam == "roca":
      pool.append(A.rsa_roca(r))
    elif fam == "denylisted":
      a = A.rsa_healthy(r, r.choice([1024, 2048, 4096]))
      a.update(fam="denylisted", healthy=False)
      a["truth"]["expect"] = ["CheckOpensslDenylist"]
      pool.append(a)
      keytype, h = A.denylist_fingerprint(int(a["n"], 16))
      bits = int(keytype.split("-")[1])
      deny.setdefault(bits, []).append(h)
  if focus == "C17" and "bit_pattern" not in enabled and r.random() < 0.25:
    # per-key limits derived from the bit length next to a much smaller key
    pool.append(A.rsa_bit_pattern(r, psize=r.choice([127, 255, 256])))
    pool.append(A.rsa_short(r, r.choice([512, 768])))
  if r.random() < f["degenerate"] * 1.5:
    for kind in r.sample(A.DEGENERATE_KINDS_CHEAP, r.randint(1, 4)):
      pool.append(A.rsa_degenerate(r, kind))
  if r.random() < 0.25 and pool:
    orig = r.choice(pool)
    orig["healthy"] = False     # a duplicated modulus shares all its factors
    dup = {**orig, "fam": "duplicate:" + orig["fam"], "healthy": False}
    pool.append(dup)
  if r.random() < 0.10 and len(pool) >= 2:
    # nested moduli: n1 divides n2
    a = r.choice(pool)
    a["healthy"] = False
    n1 = int(a["n"], 16)
    pool.append(A.rsa_art(n1 * A.rand_prime(r, 64), fam="nested"))
  if r.random() < max(0.05, f["degenerate"] * 0.25):
    a = A.rsa_keypair_msb_collision(r)
    if a:
      pool.append(a)
  if not pool:
    pool.append(A.rsa_degenerate(r, "m64"))
  # byte encodings: DER sign byte / fixed-width buffers (value unchanged)
  for a in pool:
    if r.random() < 0.25:
      a["n"] = "00" * r.choice([1, 1, 2, 8]) + a["n"]
      a["truth"]["encoding"] = "leading_zero_n"
    if r.random() < 0.10:
      a["e"] = "00" * r.choice([1, 3]) + a["e"]
  if r.random() < max(0.1, f["degenerate"] * 0.6):
    a = r.choice(pool)
    if a["healthy"]:
      a.update(healthy=False, fam="huge_exponent:" + a["fam"])
    a["e"] = A.i2h((1 << r.choice([4000, 15000, 20000, 50000])) + 1)
  r.shuffle(pool)
  return pool, deny


def _rsa_check_spec(r, name, pool_has_storage_fams):
  """A check object spec: registry singleton or constructed with knobs."""
  u = r.random()
  if u < 0.55:
    via = "all"
    if r.random() < 0.3:
      via = "singles" if name in RSA_SINGLES else "aggregates"
    return {"name": name, "how": "registry", "via": via}, True
  params = {}
  default_equiv = True
  if name == "CheckFermat":
    params = {"max_steps": r.choice([0, 1, 50, 1000, 100000])}
  elif name == "CheckContinuedFractions":
    k = r.choice([24, 40, 48, 56, 64])
    params = {"bound": 2**k}
    default_equiv = k >= 48
  elif name == "CheckBitPatterns":
    params = {"pattern_sizes": sorted(r.sample(
        [1, 3, 5, 7, 8, 16, 31, 32, 64, 128, 255, 256, 300, 511, 1000],
        r.choice([0, 1, 4, 4, 6])))}
  elif name == "CheckPollardpm1":
    params = {"bound": r.choice([3, 50, 1000, 2**14])}
  elif name == "CheckGCDN1":
    k = r.choice([64, 128, 160, 200, 300])
    params = {"gcd_bound": 2**k}
    default_equiv = k >= 128
  elif name in ("CheckOpensslDenylist", "CheckKeypairDenylist",
                "CheckUnseededRand"):
    params = {"storage": {"keypair": r.choice(["default", "empty"]),
                          "deny": []}}
  spec = {"name": name, "how": "construct", "params": params,
          "default_equiv": default_equiv, "slot": r.randrange(2)}
  return spec, default_equiv


def _gen_rsa(r, tier, f, focus):
  pool, deny = _rsa_pool(r, f, focus)
  singles, aggs = active_names("rsa")
  names = singles + aggs
  knobs = {"clock_seed": r.getrandbits(32), "denylist": {}}
  for bits, hs in deny.items():
    knobs["denylist"]["lib/data/weak_keylist.RSA-%d.dat" % bits] = \
        "# planted by the simulator\n" + "".join(h + "\n" for h in hs)
  for bits in (1024, 2048, 4096):
    # like the shipped lists, every file has entries (here: of no real key)
    path = "lib/data/weak_keylist.RSA-%d.dat" % bits
    knobs["denylist"][path] = knobs["denylist"].get(path, "") + \
        "# filler\n%020x\n%020x\n" % (r.getrandbits(80), r.getrandbits(80))
  n = len(pool)
  ops = []
  initial = {}
  if r.random() < f["preann"]:
    for j in r.sample(range(n), r.randint(1, min(3, n))):
      initial[str(j)] = rand_annotation(r, "rsa", names, pool[j])
  length = r.randint(*f["hist"])
  if tier == "thorough":
    length += r.randint(0, 6)
  fault_budget = 1 if r.random() < f["fault"] else 0
  expensive_left = 3 if tier == "quick" else 5   # check_all on big batches

  def add_check(batch=None):
    nonlocal expensive_left
    u = r.random()
    if batch is None:
      if focus == "C18" and r.random() < 0.25:
        batch = sub_batch(r, n, 0, 2)
      elif focus == "C07" and r.random() < 0.4:
        batch = [j for j in range(n) if pool[j]["healthy"]]
        r.shuffle(batch)
      else:
        batch = sub_batch(r, n, 0 if r.random() < 0.1 else 1, 8)
    if u < (0.45 if focus in ("C16", "C07", "C18") else 0.30) and \
        expensive_left > 0:
      expensive_left -= 1
      op = {"op": "check_all", "batch": batch,
            "log_level": r.choice([0, 0, 1])}
      individual = False
    else:
      name = r.choice(names)
      spec, dq = _rsa_check_spec(r, name, True)
      op = {"op": "check", "check": spec, "batch": batch, "c07": dq}
      individual = name in RSA_SINGLES
    op["oracle"] = oracle_items(r, batch, pool, "rsa", individual,
                                f["oracle"])
    ops.append(op)
    return op

  deny_idx = [j for j in range(n) if pool[j]["fam"] == "denylisted"]
  if deny_idx and r.random() < (0.8 if fault_budget else 0.4):
    # one of the denylist files cannot be opened while the registry is first
    # built; the caller carries on; a denylisted key must still be flagged
    fault_budget = 0
    b = deny_idx + [j for j in range(n) if j not in deny_idx][:2]
    ops.append({"op": "seam_fault", "kind": "open_oserror",
                "k": r.choice([0, 1, 1, 2, 2])})
    ops.append({"op": "check_all", "batch": list(b), "log_level": 0,
                "oracle": []})
    ops.append({"op": "heal"})
    ops.append({"op": "check", "batch": list(b), "c07": True,
                "check": {"name": "CheckOpensslDenylist", "how": "registry",
                          "via": "all"},
                "oracle": [{"relation": "same", "order": list(b)}]})
  if fault_budget and r.random() < 0.12:
    # the VERSION resource is unreadable while the version module is
    # (re)imported; the host retries the import after the fault
    fault_budget = 0
    ops.append({"op": "seam_fault", "kind": "open_oserror", "k": 0})
    ops.append({"op": "reimport_version"})
    ops.append({"op": "heal"})
    ops.append({"op": "reimport_version", "only_if_failed": True})
    ops.append({"op": "clone", "batch": list(range(n))})
  # optional fault episode at the very start (first registry fill)
  if fault_budget and r.random() < 0.45:
    fault_budget = 0
    if r.random() < 0.4:
      ops.append(call_fail_op(r, "rsa"))
    else:
      ops.append({"op": "seam_fault",
                  "kind": r.choice(["open_oserror", "open_oserror",
                                    "open_torn"]),
                  "k": r.randrange(0, 4)})
    add_check()
    if r.random() < 0.3:
      add_check()
    ops.append({"op": "heal"})
  big = [j for j in range(n) if pool[j]["fam"] == "bit_pattern"]
  small = [j for j in range(n) if pool[j]["fam"] == "short"]
  if big and small and r.random() < 0.7:
    # the same keys small-before-large and large-before-small
    nm = r.choice(["CheckBitPatterns", "CheckBitPatterns",
                   "CheckPermutedBitPatterns", "CheckContinuedFractions"])
    for order in ([small[0], big[0]], [big[0], small[0]]):
      ops.append({"op": "check", "batch": order, "oracle": [], "c07": True,
                  "check": {"name": nm, "how": "registry", "via": "all"}})
    length += 2
  dups = {}
  for j, a in enumerate(pool):
    dups.setdefault(int(a["n"], 16) if a["n"] else 0, []).append(j)
  dup_groups = [g for g in dups.values() if len(g) > 1]
  if fault_budget and r.random() < 0.7:
    fault_budget = 0
    mid_episode = _rsa_fault_episode(r, n)
  else:
    mid_episode = None
  while len(ops) < length:
    u = r.random()
    if mid_episode is not None and len(ops) >= 2 and u < 0.3:
      ops.extend(mid_episode)
      mid_episode = None
      continue
    if dup_groups and u < 0.08:
      add_check(batch=list(r.choice(dup_groups)))   # only identical moduli
      continue
    if u < 0.55:
      add_check()
    elif u < 0.62:
      # re-run: repeat an earlier check op on the same or a related batch
      prev = [o for o in ops if o["op"] in ("check", "check_all")]
      if prev:
        o = dict(r.choice(prev))
        v = r.random()
        if v < 0.4:
          pass
        elif v < 0.6:
          b = list(o["batch"])
          r.shuffle(b)
          o["batch"] = b
        elif v < 0.8 and len(o["batch"]) > 1:
          o["batch"] = r.sample(o["batch"], r.randint(1, len(o["batch"]) - 1))
        else:
          o["batch"] = [r.choice(o["batch"])] if o["batch"] else []
        o["oracle"] = []
        ops.append(o)
      else:
        add_check()
    elif u < 0.62 + 0.5 * f["preann"]:
      j = r.randrange(n)
      ops.append({"op": "preannotate", "idx": j,
                  "ann": rand_annotation(r, "rsa", names, pool[j])})
    elif u < 0.80:
      ops.append({"op": "clone", "batch": sub_batch(r, n, 1, n)})
    elif u < 0.86:
      ops.append({"op": "persist_reload"})
    elif u < 0.92:
      ops.append({"op": "restart"})
    elif u < 0.96:
      ops.append(_rsa_bad_call(r, names))
    elif fault_budget:
      fault_budget = 0
      ops.extend(_rsa_fault_episode(r, n))
  # always end with something judged after the last fault / restart
  if ops and ops[-1]["op"] not in ("check", "check_all"):
    add_check()
  return {"engine": "A", "kind": "rsa", "profile": "rsa", "focus": focus,
          "knobs": knobs, "pool": pool, "initial_annotations": initial,
          "ops": ops, "timeout": 900.0}


L = "paranoid_crypto.lib."
CALL_FAIL_MODULES = {
    "rsa": [L + m for m in ("paranoid", "rsa_single_checks",
                            "rsa_aggregate_checks", "rsa_util", "ntheory_util",
                            "special_case_factoring", "roca", "util",
                            "base_check", "lll", "keypair_generator",
                            "resources", "data.default_storage")],
    "ec": [L + m for m in ("paranoid", "ec_single_checks",
                           "ec_aggregate_checks", "ec_util", "util",
                           "base_check")],
    "ecdsa": [L + m for m in ("paranoid", "ecdsa_sig_checks",
                              "hidden_number_problem", "cr50_u2f_weakness",
                              "lll", "ec_util", "ec_single_checks",
                              "ec_aggregate_checks", "util", "base_check")],
}


def call_fail_op(r, kind):
  """MemoryError at the k-th function entry (log-uniform k) inside the
  library modules of this artifact kind."""
  k = int(2 ** (r.random() * 11)) - 1
  mods = CALL_FAIL_MODULES[kind]
  if r.random() < 0.4:
    mods = r.sample(mods, r.randint(1, 3))
  return {"op": "seam_fault", "kind": "call_fail", "modules": mods, "k": k}


def _rsa_fault_episode(r, n):
  """fault, faulted call, heal, retry: either a storage call that fails in
  the middle of a batch (some artifacts already annotated), or a resource
  open that fails / is torn inside a check constructor."""
  ops = []
  u = r.random()
  if u < 0.45:
    # allocation failure at an arbitrary function entry of the library during
    # an ordinary call; heal; the same call again and whatever follows
    batch = sub_batch(r, n, 1, 5)
    if r.random() < 0.5:
      call = {"op": "check_all", "batch": batch, "log_level": 0, "oracle": []}
    else:
      nm = r.choice(RSA_SINGLES + RSA_AGGREGATES)
      call = {"op": "check", "batch": batch, "oracle": [], "c07": True,
              "check": {"name": nm, "how": "registry", "via": "all"}}
    ops.append(call_fail_op(r, "rsa"))
    ops.append(dict(call))
    ops.append({"op": "heal"})
    ops.append(dict(call, oracle=[{"relation": "same", "order": list(batch)}]))
    return ops
  u = r.random()
  if u < 0.2:
    # the Storage extension point fails while a check object is constructed
    which = r.choice(["keypair", "deny"])
    spec = {"name": "CheckKeypairDenylist" if which == "keypair"
            else "CheckOpensslDenylist", "how": "construct",
            "params": {"storage": {"ctor_fail": which}}, "slot": 11,
            "default_equiv": True}
    batch = sub_batch(r, n, 1, 4)
    ops.append({"op": "seam_fault", "kind": "storage_raise", "k": 0})
    ops.append({"op": "check", "check": spec, "batch": batch, "oracle": []})
    ops.append({"op": "heal"})
    ops.append({"op": "check", "check": spec, "batch": batch, "oracle": []})
  elif u < 0.6:
    spec = {"name": "CheckUnseededRand", "how": "construct",
            "params": {"storage": {"raise_at": r.randint(1, 3)}},
            "slot": 7}
    batch = sub_batch(r, n, min(n, 3), 6)
    ops.append({"op": "seam_fault", "kind": "storage_raise", "k": 0})
    ops.append({"op": "check", "check": spec, "batch": batch,
                "oracle": [], "no_clean": True})
    ops.append({"op": "heal"})
    ops.append({"op": "check", "check": spec, "batch": batch,
                "oracle": []})
  else:
    ops.append({"op": "seam_fault",
                "kind": r.choice(["open_oserror", "open_torn"]),
                "k": r.randrange(0, 3)})
    spec = {"name": r.choice(["CheckOpensslDenylist",
                              "CheckKeypairDenylist"]),
            "how": "construct", "params": {}, "slot": 9,
            "default_equiv": True}
    batch = sub_batch(r, n, 1, 4)
    ops.append({"op": "check", "check": spec, "batch": batch,
                "oracle": []})
    ops.append({"op": "heal"})
    ops.append({"op": "check", "check": dict(spec, slot=10),
                "batch": batch, "oracle": []})
  return ops


def _gen_rsa_large(r, tier, f, focus):
  """Batch sizes up to 200 (statement of C07): many healthy keys, a few weak
  neighbours, all-checks and aggregate checks on the whole batch."""
  nh = r.randint(40, 70) if tier == "quick" else r.randint(80, 200)
  pool = [A.rsa_healthy(r, 2048) for _ in range(nh)]
  weak = []
  if r.random() < 0.8:
    weak += A.rsa_shared_prime(r, 2)
  if r.random() < 0.5:
    weak.append(A.rsa_fermat(r))
  if r.random() < 0.5:
    weak.append(A.rsa_short(r))
  pool += weak
  r.shuffle(pool)
  n = len(pool)
  healthy = [j for j in range(n) if pool[j]["healthy"]]
  allb = list(range(n))
  reg = lambda name: {"name": name, "how": "registry", "via": "all"}
  ops = [{"op": "check_all", "batch": allb, "log_level": r.choice([0, 1]),
          "oracle": []},
         {"op": "check", "check": reg("CheckGCD"),
          "batch": r.sample(allb, n), "oracle": []},
         {"op": "check", "check": reg("CheckGCDN1"), "batch": healthy,
          "oracle": []},
         {"op": "check_all", "batch": r.sample(healthy, len(healthy)),
          "log_level": 0, "oracle": []}]
  if r.random() < 0.5:
    ops.insert(r.randint(0, 2), {"op": "restart"})
  r.shuffle(ops)
  return {"engine": "A", "kind": "rsa", "profile": "rsa_large",
          "focus": focus, "knobs": {"clock_seed": r.getrandbits(32),
                                    "denylist": _empty_deny()},
          "pool": pool, "initial_annotations": {}, "ops": ops,
          "timeout": 2400.0}


def _gen_rsa_lhw(r, tier, f, focus):
  """The one check with a documented severity exception and the most expensive
  negative path: a 'suspected only' key (full search, ~12 s per call) before
  and after keys that are factored, in one batch and across calls."""
  pool = [A.rsa_lhw_suspected(r, r.choice([1024, 2048])),
          A.rsa_low_hamming(r), A.rsa_healthy(r), A.rsa_low_hamming(r)]
  reg = {"name": "CheckLowHammingWeight", "how": "registry", "via": "all"}
  orders = [[0, 1, 2], [1, 2], [3, 0], [2, 3]]
  r.shuffle(orders)
  ops = [{"op": "check", "check": reg, "batch": b, "oracle": [], "c07": True}
         for b in orders[:3]]
  if r.random() < 0.5:
    ops.insert(r.randint(1, 2), {"op": "clone", "batch": [0, 1, 2, 3]})
  ops.append({"op": "check", "check": reg, "batch": [1],
              "oracle": [{"relation": "same", "order": [1]}]})
  return {"engine": "A", "kind": "rsa", "profile": "rsa_lhw", "focus": focus,
          "knobs": {"clock_seed": r.getrandbits(32), "denylist": _empty_deny()},
          "pool": pool, "initial_annotations": {}, "ops": ops,
          "timeout": 1500.0}


def _gen_rsa_huge(r, tier, f, focus):
  """Thousands of small moduli in one aggregate call (product-tree depth,
  any internal chunking): a few related pairs far apart in the batch."""
  n = r.randint(4200, 5200) if tier == "quick" else r.randint(4200, 9000)
  pool = []
  seen = set()
  while len(pool) < n:
    m = A.rand_prime(r, 32) * A.rand_prime(r, 33)
    if m >= 2**63 and m not in seen:
      seen.add(m)
      pool.append(A.rsa_art(m, fam="small_healthy"))
  for _ in range(3):
    p = A.rand_prime(r, 33)
    i, j = r.randrange(0, 200), r.randrange(n - 200, n)
    if r.random() < 0.5:
      i, j = r.randrange(n), r.randrange(n)
    pool[i] = A.rsa_art(p * A.rand_prime(r, 32), fam="shared_prime",
                        shared=A.i2h(p), expect=["CheckGCD"])
    pool[j] = A.rsa_art(p * A.rand_prime(r, 33), fam="shared_prime",
                        shared=A.i2h(p), expect=["CheckGCD"])
  order = list(range(n))
  perm = r.sample(order, n)
  ops = [{"op": "check", "batch": order, "c07": False,
          "check": {"name": "CheckGCD", "how": "registry", "via": "all"},
          "oracle": [{"relation": "perm", "order": perm}]},
         {"op": "check", "batch": perm[:n // 2], "c07": False,
          "check": {"name": "CheckGCDN1", "how": "registry",
                    "via": "aggregates"}, "oracle": []}]
  return {"engine": "A", "kind": "rsa", "profile": "rsa_huge", "focus": focus,
          "knobs": {"clock_seed": r.getrandbits(32), "denylist": _empty_deny()},
          "pool": pool, "initial_annotations": {}, "ops": ops,
          "timeout": 1500.0}


def _rsa_bad_call(r, names):
  kind = r.choice(["empty_n", "zero_n", "tiny_n", "one"])
  n_hex = {"empty_n": "", "zero_n": "00", "tiny_n": "0f", "one": "01"}[kind]
  art = {"t": "rsa", "n": n_hex, "e": "010001", "fam": "illformed:" + kind,
         "healthy": False, "wf": False, "truth": {}}
  if r.random() < 0.5:
    call = {"op": "check_all", "log_level": 0}
  else:
    call = {"op": "check", "check": {"name": r.choice(names),
                                     "how": "registry", "via": "all"}}
  return {"op": "bad_call", "arts": [art], "call": call, "batch": []}


# ----------------------------------------------------------------------------
# directed scenarios (deterministic reproduction of listed findings)
# ----------------------------------------------------------------------------


def directed_plans(prop, profile):
  out = []
  if profile == "rsa" and prop in ("C18",):
    # F1: the all-checks entry point on an empty batch
    out.append(("directed-empty-batch", {
        "engine": "A", "kind": "rsa", "profile": "rsa", "focus": prop,
        "knobs": {"clock_seed": 1, "denylist": _empty_deny()},
        "pool": [A.rsa_art(0xC96F4B3B5A4B6F0B * 0xE2A3B8A9C3D2F1E7, fam="m64")],
        "initial_annotations": {},
        "ops": [{"op": "check_all", "batch": [], "log_level": 0,
                 "oracle": []},
                {"op": "check", "check": {"name": "CheckGCD",
                                          "how": "registry", "via": "all"},
                 "batch": [], "oracle": []}],
        "timeout": 300.0}))
  if profile == "rsa" and prop in ("C18",):
    # table-key collisions of every parity of bit length
    r = random.Random(10)
    pool = [A.rsa_keypair_msb_collision(r, b) for b in (2048, 128, 66)] + \
        [A.rsa_keypair_msb_collision(r, b) for b in (65, 127, 2047)]
    if all(pool):
      spec = {"name": "CheckKeypairDenylist", "how": "registry", "via": "all"}
      out.append(("directed-keypair-table-collision", {
          "engine": "A", "kind": "rsa", "profile": "rsa", "focus": prop,
          "knobs": {"clock_seed": 7, "denylist": _empty_deny()},
          "pool": pool, "initial_annotations": {}, "call_timeout": 30,
          "ops": [{"op": "check", "check": spec, "batch": [0, 1, 2],
                   "oracle": []},
                  {"op": "check", "check": spec, "batch": [3], "oracle": []},
                  {"op": "check", "check": spec, "batch": [4, 5],
                   "oracle": []}],
          "timeout": 600.0}))
  if profile == "rsa" and prop in ("C16", "C17"):
    # F4: a resource fault during the first registry fill, heal, all-checks
    r = random.Random(4)
    pool = [A.rsa_healthy(r), A.rsa_short(r, 1024)]
    out.append(("directed-partial-registry", {
        "engine": "A", "kind": "rsa", "profile": "rsa", "focus": prop,
        "knobs": {"clock_seed": 2, "denylist": _empty_deny()},
        "pool": pool, "initial_annotations": {},
        "ops": [{"op": "seam_fault", "kind": "open_oserror", "k": 1},
                {"op": "check_all", "batch": [0, 1], "log_level": 0,
                 "oracle": []},
                {"op": "heal"},
                {"op": "check_all", "batch": [0, 1], "log_level": 1,
                 "oracle": [{"relation": "same", "order": [0, 1]}]}],
        "timeout": 300.0}))
  if profile == "rsa" and prop in ("C16", "C17"):
    # F11: allocation failure while the aggregate checks are constructed,
    # after the single checks were already built
    r = random.Random(5)
    pool = [A.rsa_healthy(r), A.rsa_short(r, 1024)]
    out.append(("directed-registry-fault-aggregates", {
        "engine": "A", "kind": "rsa", "profile": "rsa", "focus": prop,
        "knobs": {"clock_seed": 3, "denylist": _empty_deny()},
        "pool": pool, "initial_annotations": {},
        "ops": [{"op": "seam_fault", "kind": "call_fail", "k": 0,
                 "modules": ["paranoid_crypto.lib.rsa_aggregate_checks"]},
                {"op": "check_all", "batch": [0, 1], "log_level": 0,
                 "oracle": []},
                {"op": "heal"},
                {"op": "check_all", "batch": [0, 1], "log_level": 0,
                 "oracle": []}],
        "timeout": 300.0}))
  if profile in ("ec", "ecdsa"):
    from dst import engine_a_gen_ec as E
    out += E.directed_plans(prop, profile)
  return out


def _empty_deny():
  return {"lib/data/weak_keylist.RSA-%d.dat" % b: "%020x\n" % (b * 7919)
          for b in (1024, 2048, 4096)}
