"""MANIFEST.setup_cmd: verifies the offline toolchain and builds the native shim."""
import shutil
import sys


def main():
  import gmpy2, fpylll, numpy, scipy, absl, google.protobuf  # noqa
  if not shutil.which("g++"):
    print("setup: g++ missing (python fallback for Berlekamp-Massey will be used)")
  from dst import overlay
  overlay.bootstrap("/repo")
  from paranoid_crypto.lib import paranoid  # noqa
  from dst import selftest
  if selftest.run_models() != 0:
    print("setup: reference models disagree with their vectors")
    return 2
  print("setup: ok (protobuf %s, numpy %s)" % (google.protobuf.__version__, numpy.__version__))
  return 0


if __name__ == "__main__":
  sys.exit(main())
