"""Artifact families with planted ground truth (DESIGN 3.7).

Artifacts are plain JSON-able dicts (bytes fields as hex text) so that a plan
is self-contained and replayable without the PRNG.  Elliptic-curve arithmetic
and ECDSA signing here are an independent affine implementation on gmpy2; only
the domain parameters are read from the library.
"""

import hashlib

import gmpy2

mpz = gmpy2.mpz

STRONG_CURVE_NAMES = ("secp224r1", "secp256r1", "secp384r1", "secp521r1",
                      "secp256k1", "brainpoolP256r1", "brainpoolP384r1",
                      "brainpoolP512r1")


# ----------------------------------------------------------------------------
# byte helpers
# ----------------------------------------------------------------------------


def i2h(v, length=None):
  """int -> minimal big-endian hex text ('' for 0), optionally padded."""
  v = int(v)
  n = (v.bit_length() + 7) // 8
  if length is not None:
    n = max(n, length)
  return v.to_bytes(n, "big").hex()


def h2i(h):
  return int(h, 16) if h else 0


# ----------------------------------------------------------------------------
# independent elliptic-curve arithmetic
# ----------------------------------------------------------------------------


class MiniCurve:
  """y^2 = x^3 + ax + b over GF(p); affine; None is the point at infinity."""

  def __init__(self, cid, name, a, b, p, gx, gy, n, h=1):
    self.cid, self.name = cid, name
    self.a, self.b, self.p = mpz(a), mpz(b), mpz(p)
    self.g = (mpz(gx), mpz(gy))
    self.n = mpz(n)
    self.h = h
    self.bits = int(self.n.bit_length())

  def on_curve(self, pt):
    if pt is None:
      return True
    x, y = pt
    return (y * y - (x * x * x + self.a * x + self.b)) % self.p == 0

  def neg(self, pt):
    return None if pt is None else (pt[0], -pt[1] % self.p)

  def add(self, p1, p2):
    if p1 is None:
      return p2
    if p2 is None:
      return p1
    x1, y1 = p1
    x2, y2 = p2
    if x1 == x2:
      if (y1 + y2) % self.p == 0:
        return None
      lam = (3 * x1 * x1 + self.a) * gmpy2.invert(2 * y1, self.p) % self.p
    else:
      lam = (y2 - y1) * gmpy2.invert(x2 - x1, self.p) % self.p
    x3 = (lam * lam - x1 - x2) % self.p
    return (x3, (lam * (x1 - x3) - y1) % self.p)

  def mul(self, k, pt=None):
    pt = self.g if pt is None else pt
    k = int(k) % int(self.n * self.h)
    acc = None
    while k:
      if k & 1:
        acc = self.add(acc, pt)
      pt = self.add(pt, pt)
      k >>= 1
    return acc


_CURVES = None


def curves():
  """{curve id: MiniCurve} for every prime-field curve the library knows."""
  global _CURVES
  if _CURVES is None:
    from paranoid_crypto.lib import ec_util
    out = {}
    for cid, c in ec_util.CURVE_FACTORY.items():
      if c is None:
        continue
      out[int(cid)] = MiniCurve(int(cid), c.name, c.a, c.b, c.mod, c.g[0],
                                c.g[1], c.n, c.h)
    _CURVES = out
  return _CURVES


def binary_curve_ids():
  from paranoid_crypto.lib import ec_util
  return sorted(int(cid) for cid, c in ec_util.CURVE_FACTORY.items()
                if c is None)


def strong_curve_ids():
  return sorted(cid for cid, c in curves().items()
                if c.name in STRONG_CURVE_NAMES)


def curve_by_name(name):
  for c in curves().values():
    if c.name == name:
      return c
  raise KeyError(name)


# ----------------------------------------------------------------------------
# RSA
# ----------------------------------------------------------------------------


def rand_prime(r, bits):
  v = r.getrandbits(bits) | (3 << (bits - 2)) | 1
  return int(gmpy2.next_prime(v - 2)) if bits > 2 else 3


def rsa_art(n, e=65537, fam="healthy", healthy=False, **truth):
  n = int(n)
  return {"t": "rsa", "n": i2h(n), "e": i2h(e), "fam": fam,
          "healthy": bool(healthy), "wf": n >= 2**63, "truth": truth}


def rsa_healthy(r, bits=2048):
  while True:
    p, q = rand_prime(r, bits // 2), rand_prime(r, bits // 2)
    n = p * q
    if n.bit_length() == bits and p != q:
      return rsa_art(n, fam="healthy", healthy=True, bits=bits)


def rsa_shared_prime(r, count=2, bits=2048):
  p = rand_prime(r, bits // 2)
  out = []
  for _ in range(count):
    q = rand_prime(r, bits // 2)
    out.append(rsa_art(p * q, fam="shared_prime", shared=i2h(p),
                       expect=["CheckGCD"]))
  return out


def rsa_shared_nm1(r, count=2, bits=2048):
  """Keys whose n-1 share a 200-bit prime factor f (p = q = 1 mod f)."""
  f = rand_prime(r, 200)

  def prime_1_mod_f(pbits):
    while True:
      k = r.getrandbits(pbits - 200) | (3 << (pbits - 202))
      cand = k * f + 1
      if cand % 2 == 0:
        cand += f
      if cand.bit_length() == pbits and gmpy2.is_prime(cand, 25):
        return int(cand)

  out = []
  for _ in range(count):
    p, q = prime_1_mod_f(bits // 2), prime_1_mod_f(bits // 2)
    out.append(rsa_art(p * q, fam="shared_nm1", shared=i2h(f),
                       expect=["CheckGCDN1"]))
  return out


def rsa_fermat(r, bits=2048):
  p = rand_prime(r, bits // 2)
  q = int(gmpy2.next_prime(p + r.getrandbits(40)))
  return rsa_art(p * q, fam="close_primes", expect=["CheckFermat"])


def rsa_fermat_deep(r, bits=2048, steps=None):
  """Close primes that need thousands of Fermat steps (still far below the
  documented default of 100000): found in a fresh process with the default
  bound, and a good probe for bounds that drift."""
  import math
  steps = steps or r.randint(1500, 60000)
  p = rand_prime(r, bits // 2)
  # Fermat needs about (p - q)^2 / (8 sqrt(n)) steps
  gap = int(math.isqrt(8 * p * steps))
  q = int(gmpy2.next_prime(p + gap))
  return rsa_art(p * q, fam="close_primes_deep", steps=steps,
                 expect=["CheckFermat"])


def rsa_short(r, bits=None):
  bits = bits or r.choice([512, 768, 1024, 1536])
  a = rsa_healthy(r, bits)
  a.update(fam="short", healthy=False)
  a["truth"]["expect"] = ["CheckSizes"]
  return a


def rsa_bad_exponent(r, bits=2048):
  a = rsa_healthy(r, bits)
  a.update(fam="bad_exponent", healthy=False, e=i2h(r.choice([3, 17, 65539,
                                                             2**32 + 1])))
  a["truth"]["expect"] = ["CheckExponents"]
  return a


def rsa_unseeded(r):
  """p next to a listed unseeded-PRNG output (CheckUnseededRand)."""
  from paranoid_crypto.lib.data import unseeded_rands
  sizes = [s for s, v in unseeded_rands.size_unseeded_map.items() if v and
           s >= 512]
  if not sizes:
    return None
  psize = r.choice(sorted(sizes))
  vals = sorted(unseeded_rands.size_unseeded_map[psize])
  p0 = vals[r.randrange(len(vals))]
  p = int(gmpy2.next_prime((p0 | (3 << (psize - 2))) - 1))
  while True:
    q = rand_prime(r, psize)
    n = p * q
    if (n.bit_length() + 1) // 2 == psize and q != p:
      break
  return rsa_art(n, fam="unseeded", expect=["CheckUnseededRand"])


def rsa_keypair_denylisted(r, bits=2048):
  from paranoid_crypto.lib import keypair_generator
  seed = bytes([r.randrange(256)] + [0] * 31)
  p, q = keypair_generator.Generator(seed).generate_key(bits)
  return rsa_art(int(p) * int(q), fam="keypair", expect=["CheckKeypairDenylist"])


def rsa_keypair_msb_collision(r, bits=None):
  """A modulus that is NOT a keypair key but whose 64 most significant bits
  equal an entry of the keypair table (the check's lookup key): exercises the
  path 'table hit, regenerate, compare' for arbitrary sizes."""
  from paranoid_crypto.lib.data import default_storage
  keys = sorted(default_storage.DefaultStorage().GetKeypairData().table)
  if not keys:
    return None
  key = keys[r.randrange(len(keys))]
  bits = bits or r.choice([65, 66, 100, 127, 128, 511, 1023, 1024, 2047, 2048])
  low = bits - 64
  n = (key << low) | (r.getrandbits(low) | 1 if low else 0)
  return rsa_art(n, fam="keypair_msb_collision", bits=bits)


def rsa_low_hamming(r, bits=2048):
  half = bits // 2

  def lhw_prime():
    while True:
      v = (1 << (half - 1)) | (1 << (half - 2)) | 1
      for _ in range(r.randint(8, 20)):
        v |= 1 << r.randrange(1, half - 2)
      if gmpy2.is_prime(v, 25):
        return v

  # keep only instances the (deterministic) search factors quickly; others
  # cost up to 30 s per call without adding anything to the histories
  from paranoid_crypto.lib import rsa_util
  while True:
    n = lhw_prime() * lhw_prime()
    weak, factors = rsa_util.CheckLowHammingWeight(mpz(n), maxsteps=4000)
    if weak and factors:
      return rsa_art(n, fam="low_hamming", expect=["CheckLowHammingWeight"])


def rsa_lhw_suspected(r, bits=2048, w=None):
  """Primes whose upper half has a low Hamming weight and whose lower half is
  random: CheckLowHammingWeight reports 'suspected' (weak, no factors,
  severity UNKNOWN by documented exception) after its full search (~12 s)."""
  half = bits // 2
  w = w or r.randint(3, 5)

  def prime():
    while True:
      up = (1 << (half // 2 - 1)) | (1 << (half // 2 - 2))
      for _ in range(w):
        up |= 1 << r.randrange(0, half // 2 - 2)
      v = (up << (half - half // 2)) | r.getrandbits(half - half // 2) | 1
      if v.bit_length() == half and gmpy2.is_prime(v, 25):
        return v

  return rsa_art(prime() * prime(), fam="lhw_suspected",
                 expect=["CheckLowHammingWeight"])


def rsa_bit_pattern(r, bits=2048, psize=None):
  psize = psize or r.choice([8, 16, 32, 64, 127, 128, 255, 256, 255, 256])
  if psize >= 127:
    bits = 3072       # large patterns need n.bit_length() // 8 >= psize
  half = bits // 2
  pat = r.getrandbits(psize) | (1 << (psize - 1)) | 1
  v = 0
  for _ in range(half // psize):
    v = (v << psize) | pat
  v |= 3 << (half - 2)
  p = int(gmpy2.next_prime(v))
  q = rand_prime(r, half)
  return rsa_art(p * q, fam="bit_pattern", expect=["CheckBitPatterns"])


def rsa_roca(r, bits=2048):
  """p, q = k*M + 65537^a mod M (ROCA structure) for the detector's primes."""
  from paranoid_crypto.lib import roca
  m = 1
  for pr in roca.ROCAKeyDetector.PRIMES:
    m *= pr
  half = bits // 2

  def roca_prime():
    while True:
      a = r.getrandbits(64)
      k = r.getrandbits(half - m.bit_length()) | (1 << (half - m.bit_length()
                                                        - 1))
      cand = k * m + pow(65537, a, m)
      if cand.bit_length() == half and gmpy2.is_prime(cand, 25):
        return int(cand)

  return rsa_art(roca_prime() * roca_prime(), fam="roca", expect=["CheckROCA"])


def denylist_fingerprint(n):
  n = int(n)
  keytype = "RSA-%d" % n.bit_length()
  h = hashlib.sha1(("Modulus=%X\n" % n).encode()).hexdigest()[20:]
  return keytype, h


def rsa_degenerate(r, kind, bits=2048):
  half = bits // 2
  if kind == "prime":
    n = rand_prime(r, bits)
  elif kind == "square":
    p = rand_prime(r, half)
    n = p * p
  elif kind == "even":
    n = 2 * rand_prime(r, bits - 1)
  elif kind == "pow2_small":
    n = 1 << r.choice([63, 64, 100, 127, 255])
  elif kind == "pow2":
    n = 1 << (bits - 1)
  elif kind == "allones":
    n = (1 << r.choice([64, 128, 512, bits])) - 1
  elif kind == "m64":
    n = rand_prime(r, 32) * rand_prime(r, 32)
    while n < 2**63:
      n = rand_prime(r, 32) * rand_prime(r, 32)
  elif kind == "min":
    n = 2**63 + r.choice([0, 1, 25, 29])
  elif kind == "oddlen":
    b = r.choice([65, 127, 1023, 2047, 2049])
    n = rand_prime(r, b // 2) * rand_prime(r, b - b // 2)
  elif kind == "randlen":
    b = r.randint(64, 1300)
    n = rand_prime(r, b // 2) * rand_prime(r, b - b // 2)
    while n < 2**63:
      n = rand_prime(r, 32) * rand_prime(r, 33)
  elif kind == "cube":
    n = rand_prime(r, bits // 3) ** 3
  elif kind == "three_primes":
    n = rand_prime(r, 700) * rand_prime(r, 700) * rand_prime(r, 648)
  elif kind == "unbalanced":
    n = rand_prime(r, 256) * rand_prime(r, bits - 256)
  else:
    raise ValueError(kind)
  a = rsa_art(n, fam="degenerate:" + kind)
  if kind in ("m64", "oddlen", "even", "three_primes", "prime") and \
      r.random() < 0.3:
    a["e"] = r.choice(["", "01", "02", i2h(2**64 + 1), "00010001"])
  return a


DEGENERATE_KINDS_CHEAP = ("prime", "square", "even", "pow2_small", "allones",
                          "m64", "min", "oddlen", "cube", "three_primes",
                          "unbalanced", "randlen", "randlen")


# ----------------------------------------------------------------------------
# EC keys
# ----------------------------------------------------------------------------


def ec_art(cid, x, y, fam, healthy=False, d=None, xh=None, yh=None, **truth):
  """x/y as ints (minimal encoding) unless explicit hex xh/yh is given."""
  return {"t": "ec", "curve": int(cid),
          "x": xh if xh is not None else i2h(x),
          "y": yh if yh is not None else i2h(y),
          "fam": fam, "healthy": bool(healthy), "wf": True,
          "d": None if d is None else i2h(d), "truth": truth}


def ec_from_priv(c, d, fam, healthy=False, pad=False, **truth):
  pt = c.mul(d)
  ln = (int(c.p.bit_length()) + 7) // 8 if pad else None
  return ec_art(c.cid, pt[0], pt[1], fam, healthy=healthy, d=int(d) % int(c.n),
                xh=i2h(pt[0], ln), yh=i2h(pt[1], ln), **truth)


def ec_healthy(r, c):
  d = r.randrange(1, int(c.n))
  # uniformly random d: the chance of hitting a weak form is ~2^-190
  return ec_from_priv(c, d, "healthy", healthy=True, pad=r.random() < 0.5)


def weak_multipliers(c):
  """(multiplier, description) list as documented for the weak-key forms."""
  out = []
  for j in range(0, c.bits - 24, 8):
    out.append((1 << j, "shift%d" % j))
  for j in range(2, c.bits // 32 + 1):
    out.append((sum(1 << (32 * i) for i in range(j)), "repeat%d" % j))
  return out


def ec_weak_priv(r, c, v=None, which=None):
  mults = weak_multipliers(c)
  m, desc = mults[r.randrange(len(mults))] if which is None else mults[which]
  if v is None:
    u = r.random()
    if u < 0.6:
      v = r.randrange(1, 2**32)
    elif u < 0.8:
      v = r.choice([1, 2, 3, 2**16, 2**31, 2**32 - 1, 2**32 - 2, 0xFFFF0000])
    else:
      v = r.randrange(1, 2**20)
  d = v * m % int(c.n)
  return ec_from_priv(c, d, "weak_priv:" + desc, v=v, mult=i2h(m),
                      expect=["CheckWeakECPrivateKey"])


def ec_overshoot(r, c):
  """v just above 2^32 (finding F5: verdict depends on cached table size)."""
  v = 2**32 + r.randrange(1, 3 * 10**6)
  a = ec_from_priv(c, v, "overshoot", v=v, mult="01")
  return a


def ec_small_diff_pair(r, c, max_diff, inside=True):
  d1 = r.randrange(2**64, int(c.n) - 2**64)
  if inside:
    delta = r.choice([1, 2, max_diff - 1, max(1, max_diff // 2),
                      r.randrange(1, max_diff)])
  else:
    delta = r.choice([max_diff * 4 + 1, max_diff * 64 + 7,
                      r.randrange(2**40, 2**41)])
  if r.random() < 0.5:
    delta = -delta
  a1 = ec_from_priv(c, d1, "small_diff" if inside else "far_diff",
                    healthy=not inside, delta=delta, role="a")
  a2 = ec_from_priv(c, d1 + delta, "small_diff" if inside else "far_diff",
                    healthy=not inside, delta=-delta, role="b")
  if inside:
    a1["truth"]["expect"] = ["CheckECKeySmallDifference"]
    a2["truth"]["expect"] = ["CheckECKeySmallDifference"]
  return [a1, a2]


def ec_small_diff_chain(r, c, max_diff):
  """Three keys d-m, d, d+m with m < max_diff <= 2m: the middle key is close
  to both outer keys, which are not close to each other."""
  m = r.randint(max_diff // 2 + 1, max_diff - 1) if max_diff > 3 else 1
  d = r.randrange(2**64, int(c.n) - 2**64)
  out = []
  for role, dd in (("lo", d - m), ("mid", d), ("hi", d + m)):
    a = ec_from_priv(c, dd, "small_diff_chain", delta=m, role=role,
                     expect=["CheckECKeySmallDifference"])
    out.append(a)
  return out


def ec_invalid(r, c, kind):
  p = int(c.p)
  if kind == "off_curve":
    while True:
      x, y = r.randrange(p), r.randrange(p)
      if not c.on_curve((mpz(x), mpz(y))):
        return ec_art(c.cid, x, y, "invalid:off_curve")
  pt = c.mul(r.randrange(1, int(c.n)))
  x, y = int(pt[0]), int(pt[1])
  if kind == "x_plus_p":
    return ec_art(c.cid, x + p, y, "invalid:x_plus_p", base=[i2h(x), i2h(y)])
  if kind == "y_plus_p":
    return ec_art(c.cid, x, y + p, "invalid:y_plus_p", base=[i2h(x), i2h(y)])
  if kind == "zero":
    return ec_art(c.cid, 0, 0, "invalid:zero")
  if kind == "empty":
    return ec_art(c.cid, 0, 0, "invalid:empty", xh="", yh="")
  if kind == "x_eq_p":
    return ec_art(c.cid, p, y, "invalid:x_eq_p")
  if kind == "huge":
    return ec_art(c.cid, x + (p << r.randint(1, 600)), y, "invalid:huge")
  if kind == "half_empty":
    return ec_art(c.cid, x, 0, "invalid:half_empty", yh="")
  raise ValueError(kind)


EC_INVALID_KINDS = ("off_curve", "x_plus_p", "y_plus_p", "zero", "empty",
                    "x_eq_p", "huge", "half_empty")


def ec_relabel(art, new_cid):
  b = dict(art)
  b["curve"] = int(new_cid)
  b["fam"] = "relabelled:" + art["fam"]
  b["healthy"] = False
  b["d"] = None
  b["truth"] = {"from_curve": art["curve"]}
  return b


# ----------------------------------------------------------------------------
# ECDSA signatures
# ----------------------------------------------------------------------------


def transform_order_len(c, h_int, hlen_bits):
  shift = hlen_bits - c.bits
  if shift > 0:
    h_int >>= shift
  return h_int % int(c.n)


def sign(c, d, k, hash_bytes):
  """Textbook ECDSA with an explicit nonce; returns (r, s) or None."""
  k = int(k) % int(c.n)
  if k == 0:
    return None
  z = transform_order_len(c, int.from_bytes(hash_bytes, "big"),
                          len(hash_bytes) * 8)
  rp = c.mul(k)
  rr = int(rp[0]) % int(c.n)
  if rr == 0:
    return None
  s = int(gmpy2.invert(k, c.n)) * (z + rr * int(d)) % int(c.n)
  if s == 0:
    return None
  return rr, s


def sig_art(c_id, ix, iy, rr, s, hash_hex, fam, healthy, issuer, d=None,
            wf=True, **truth):
  return {"t": "sig", "curve": int(c_id), "ix": ix, "iy": iy, "r": i2h(rr),
          "s": i2h(s), "h": hash_hex, "fam": fam, "healthy": bool(healthy),
          "issuer": issuer, "d": None if d is None else i2h(d), "wf": bool(wf),
          "truth": truth}


class Issuer:
  """A signing key on a curve; makes signatures with chosen nonces."""

  def __init__(self, r, c, label, d=None, weak_key=False):
    self.c = c
    self.label = label
    self.d = int(d) if d is not None else r.randrange(1, int(c.n))
    pt = c.mul(self.d)
    self.ix, self.iy = i2h(pt[0]), i2h(pt[1])
    self.weak_key = weak_key

  def make(self, r, k, fam, healthy, hash_len=None, **truth):
    while True:
      hl = hash_len if hash_len is not None else r.choice([20, 28, 32, 32, 32,
                                                           48, 64])
      hb = r.getrandbits(8 * hl).to_bytes(hl, "big") if hl else b""
      rs = sign(self.c, self.d, k, hb)
      if rs is not None:
        return sig_art(self.c.cid, self.ix, self.iy, rs[0], rs[1], hb.hex(),
                       fam, healthy, self.label, d=self.d, **truth)
      k += 1

  def healthy(self, r, count, hash_len=None):
    return [self.make(r, r.randrange(1, int(self.c.n)), "healthy",
                      not self.weak_key, hash_len) for _ in range(count)]

  def biased(self, r, kind, biased_bits=64, count=None):
    c = self.c
    bits = c.bits
    count = count or (2 * bits + biased_bits - 1) // biased_bits + 2
    out = []
    if kind == "msb":
      for _ in range(count):
        out.append(self.make(r, r.getrandbits(bits - biased_bits) | 1,
                             "bias:msb", False, expect=["CheckNonceMSB"]))
    elif kind == "prefix":
      pre = r.getrandbits(biased_bits) << (bits - biased_bits)
      pre %= int(c.n)
      pre &= ~((1 << (bits - biased_bits)) - 1)
      for _ in range(count):
        out.append(self.make(r, pre | r.getrandbits(bits - biased_bits - 1),
                             "bias:prefix", False,
                             expect=["CheckNonceCommonPrefix"]))
    elif kind == "postfix":
      post = r.getrandbits(biased_bits)
      for _ in range(count):
        k = (r.getrandbits(bits - biased_bits - 1) << biased_bits) | post
        out.append(self.make(r, k, "bias:postfix", False,
                             expect=["CheckNonceCommonPostfix"]))
    else:
      raise ValueError(kind)
    return out

  def twins(self, r, reuse=False):
    """A signature and its malleated twin (r, n - s) on the same hash: both
    verify, both are well-formed (s in [1, n-1]); optionally a second message
    signed with the same nonce (equal r, unrelated s) and its twin as well."""
    n = int(self.c.n)
    k = r.randrange(1, n)
    out = [self.make(r, k, "malleated_twin", False)]
    if reuse:
      out.append(self.make(r, k, "malleated_twin", False))
      if h2i(out[1]["r"]) != h2i(out[0]["r"]):
        out.pop()
    for a in list(out):
      b = dict(a, truth=dict(a["truth"]))
      b["s"] = i2h(n - h2i(a["s"]))
      out.append(b)
    return out

  def u2f(self, r, count=2, negative=False):
    """Nonces of the form abababab cdcdcdcd ... (one byte per 32-bit word);
    negative=True uses n - K for some of them (still valid nonces; the
    lattice then finds the relation with a negative combination)."""
    out = []
    for i in range(count):
      k = 0
      for j in range(0, self.c.bits, 32):
        k |= (0x01010101 * r.randrange(1, 256)) << j
      k %= int(self.c.n)
      fam = "u2f"
      if negative and (i % 2 == 0 or r.random() < 0.5):
        k = int(self.c.n) - k
        fam = "u2f_negated"
      out.append(self.make(r, k, fam, False))
    return out


class JavaUtilRandom:
  """java.util.Random + new BigInteger(bits, rnd), continuing one stream
  (transcribed from the JDK; independent of rng.JavaRandom)."""

  def __init__(self, seed):
    self.s = (seed ^ 0x5DEECE66D) & ((1 << 48) - 1)

  def next32(self):
    self.s = (self.s * 0x5DEECE66D + 0xB) & ((1 << 48) - 1)
    return self.s >> 16

  def biginteger(self, bits):
    nb = (bits + 7) // 8
    buf = bytearray(nb)
    i = 0
    while i < nb:
      rnd = self.next32()
      k = min(nb - i, 4)
      while k > 0:
        buf[i] = rnd & 0xFF
        rnd >>= 8
        i += 1
        k -= 1
    buf[0] &= (1 << (8 - (8 * nb - bits))) - 1
    return int.from_bytes(buf, "big")


def sigs_java_lcg(r, c, label, count):
  """Signatures whose nonces come from one java.util.Random stream."""
  iss = Issuer(r, c, label)
  jr = JavaUtilRandom(r.getrandbits(48))
  out = []
  while len(out) < count:
    k = jr.biginteger(c.bits)
    if 0 < k < int(c.n):
      out.append(iss.make(r, k, "lcg:java", False,
                          expect=["CheckLCGNonceJavaUtilRandom"]))
  return out


_UPSTREAM_GMP = None


def sigs_upstream_gmp_lcg(label):
  """The three GMP-LCG signatures of upstream's own test data (secp256r1),
  as artifacts; [] if the test module cannot be imported."""
  global _UPSTREAM_GMP
  if _UPSTREAM_GMP is None:
    try:
      from paranoid_crypto.lib import paranoid_ecdsa_test as t
      vecs = []
      for pb in t.bad_ecdsa_lcg_gmp:
        vecs.append((int(pb.issuer_key_info.curve_type),
                     pb.issuer_key_info.x.hex(), pb.issuer_key_info.y.hex(),
                     pb.ecdsa_sig_info.r.hex(), pb.ecdsa_sig_info.s.hex(),
                     pb.ecdsa_sig_info.message_hash.hex()))
      _UPSTREAM_GMP = vecs
    except Exception:  # pylint: disable=broad-except
      _UPSTREAM_GMP = []
  out = []
  for cid, ix, iy, rr, ss, hh in _UPSTREAM_GMP:
    out.append({"t": "sig", "curve": cid, "ix": ix, "iy": iy, "r": rr,
                "s": ss, "h": hh, "fam": "lcg:gmp", "healthy": False,
                "issuer": label, "d": None, "wf": True,
                "truth": {"expect": ["CheckLCGNonceGMP"],
                          "source": "upstream test vectors"}})
  return out


# ----------------------------------------------------------------------------
# protobuf construction (runs inside subject / fresh children)
# ----------------------------------------------------------------------------


def to_pb(art):
  from paranoid_crypto import paranoid_pb2
  t = art["t"]
  if t == "rsa":
    pb = paranoid_pb2.RSAKey()
    pb.rsa_info.n = bytes.fromhex(art["n"])
    pb.rsa_info.e = bytes.fromhex(art["e"])
  elif t == "ec":
    pb = paranoid_pb2.ECKey()
    pb.ec_info.curve_type = art["curve"]
    pb.ec_info.x = bytes.fromhex(art["x"])
    pb.ec_info.y = bytes.fromhex(art["y"])
  elif t == "sig":
    pb = paranoid_pb2.ECDSASignature()
    pb.issuer_key_info.curve_type = art["curve"]
    pb.issuer_key_info.x = bytes.fromhex(art["ix"])
    pb.issuer_key_info.y = bytes.fromhex(art["iy"])
    pb.ecdsa_sig_info.r = bytes.fromhex(art["r"])
    pb.ecdsa_sig_info.s = bytes.fromhex(art["s"])
    pb.ecdsa_sig_info.message_hash = bytes.fromhex(art["h"])
  else:
    raise ValueError(t)
  return pb
