"""Engine A: artifact-pipeline histories (RSA / EC / ECDSA) -- DESIGN 3, 4.

One run = one pipeline lifetime: a pool of artifacts with planted ground
truth, a history of API operations over sub-batches (with re-runs,
pre-annotation, persistence, restarts, ill-formed earlier calls, seam faults),
executed in forked SUBJECT processes, with sampled FRESH-process oracle
queries.  Serves C16, C17, C07, C18 and the check-level part of C10.
"""

import hashlib
import random

from dst import artifacts as A
from dst import core
from dst import engine_a_exec as X
from dst import engine_a_gen as G
from dst import model_a as M

ASSUMPTIONS = [
    "every check/check_all step is executed twice in the subject: first on "
    "clean clones (yields the per-call verdict V), then on the history-laden "
    "protobufs; a check's verdict is assumed not to read test_info",
    "planted weaknesses are non-marginal (64 biased nonce bits, >=200-bit "
    "shared factors); marginal lattice instances are never generated because "
    "LLL is not permutation invariant",
    "default max_diff of CheckECKeySmallDifference is a per-run knob in "
    "2^8..2^16 set through __init__.__defaults__ (upstream's own test trick); "
    "the shipped 2^24 needs 3.2 GB and 99 s per call",
    "resource files are read through a fault-injecting wrapper of "
    "resources.GetParanoidResourceAsFile; the three (empty) weak_keylist files "
    "are served from an in-memory overlay with planted fingerprints",
]

INDIVIDUAL = {
    "CheckSizes", "CheckExponents", "CheckROCA", "CheckROCAVariant",
    "CheckFermat", "CheckHighAndLowBitsEqual", "CheckOpensslDenylist",
    "CheckContinuedFractions", "CheckBitPatterns", "CheckPermutedBitPatterns",
    "CheckPollardpm1", "CheckLowHammingWeight", "CheckUnseededRand",
    "CheckSmallUpperDifferences", "CheckKeypairDenylist",
    "CheckValidECKey", "CheckWeakCurve", "CheckWeakECPrivateKey"}
# joint checks whose verdict may legitimately grow with a larger cached table
TABLE_MONOTONE = {"CheckECKeySmallDifference", "CheckIssuerKey"}
NONCE_CHECKS = {"CheckLCGNonceGMP", "CheckLCGNonceJavaUtilRandom",
                "CheckNonceMSB", "CheckNonceCommonPrefix",
                "CheckNonceCommonPostfix", "CheckNonceGeneralized",
                "CheckCr50U2f"}


def gen_plan(run_seed, tier="quick", profile="rsa", focus=None):
  return G.gen_plan(run_seed, tier, profile, focus)


def directed_plans(prop, profile):
  return G.directed_plans(prop, profile)


def sample_history(plan, limit=8):
  ops = []
  for op in plan["ops"][:limit]:
    o = {k: v for k, v in op.items() if k not in ("arts", "ann")}
    if "batch" in o:
      o["batch_families"] = [plan["pool"][j]["fam"] for j in op["batch"]] \
          if op["op"] != "bad_call" else None
    ops.append(o)
  for o in ops:
    for k in ("batch", "batch_families"):
      if isinstance(o.get(k), list) and len(o[k]) > 24:
        o[k] = o[k][:24] + ["... %d more" % (len(o[k]) - 24)]
    if "oracle" in o:
      o["oracle"] = [it["relation"] for it in o["oracle"]]
  return {"engine": "A", "kind": plan["kind"],
          "pool": [a["fam"] for a in plan["pool"]][:30],
          "pool_size": len(plan["pool"]),
          "knobs": {k: v for k, v in plan.get("knobs", {}).items()
                    if k != "denylist"},
          "ops": ops, "ops_total": len(plan["ops"])}


# ----------------------------------------------------------------------------
# execution
# ----------------------------------------------------------------------------


def execute(plan, timeout=None):
  timeout = timeout or plan.get("timeout", 900.0)
  segments = []
  start, pool_bytes = 0, None
  while start is not None:
    seg = core.run_in_child(X.subject_segment, (plan, start, pool_bytes),
                            timeout, "engineA subject")
    segments.append(seg)
    start, pool_bytes = seg["next"], seg["pool"]
  queries = G.oracle_queries(plan)
  fresh = X.fresh_queries(plan, queries) if queries else []
  # judged in a throw-away child as well (the judge constructs check objects
  # to read documented severities): the caller stays pristine
  return core.run_in_child(judge, (plan, segments, queries, fresh), 1200.0,
                           "engineA judge")


# ----------------------------------------------------------------------------
# judge
# ----------------------------------------------------------------------------


def _viol(prop, invariant, step, key, msg, known=None, detail=None):
  return {"property": prop, "invariant": invariant, "step": step,
          "key": "%s:%s" % (invariant, key), "known": known,
          "message": msg, "detail": detail or {}}


def _entries_by_name(snapd):
  d = {}
  for name, res, sev in snapd["entries"]:
    d.setdefault(name, []).append((bool(res), int(sev)))
  return d


def _raised(ret):
  return "exc" in ret


def _fmt_exc(ret):
  return "%s(%s) at %s" % (ret["exc"], ret.get("msg", "")[:80],
                           "<".join(reversed(ret.get("where", [])[-2:])))


class Ctx:
  """What the judge knows about the tree under test (read from declarations,
  not from the registry getters)."""

  def __init__(self, kind):
    from paranoid_crypto import paranoid_pb2
    from paranoid_crypto import version
    from paranoid_crypto.lib import ec_util
    from paranoid_crypto.lib import paranoid
    self.kind = kind
    self.lib_version = version.__version__
    self.sev = {k: int(v) for k, v in paranoid_pb2.SeverityType.items()}
    self.active = {
        "rsa": [c.__name__ for c in paranoid._ACTIVE_RSA_SINGLE_CHECKS +  # pylint: disable=protected-access
                paranoid._ACTIVE_RSA_AGGREGATE_CHECKS],  # pylint: disable=protected-access
        "ec": [c.__name__ for c in paranoid._ACTIVE_EC_SINGLE_CHECKS +  # pylint: disable=protected-access
               paranoid._ACTIVE_EC_AGGREGATE_CHECKS],  # pylint: disable=protected-access
        "ecdsa": [c.__name__ for c in paranoid._ACTIVE_ECDSA_SIG_CHECKS],  # pylint: disable=protected-access
    }
    self.known_curve = {int(cid) for cid, c in ec_util.CURVE_FACTORY.items()
                        if c is not None}
    self.doc_sev = G.documented_severities()

  def applicable(self, name, art):
    """True / False / None (= either accepted)."""
    if self.kind == "rsa":
      return True
    if name in ("CheckValidECKey", "CheckIssuerKey"):
      return True
    return True if art["curve"] in self.known_curve else None


def judge(plan, segments, queries, fresh):
  kind = plan["kind"]
  ctx = Ctx(kind)
  pool = plan["pool"]
  ops = plan["ops"]
  viol = []
  st = {"steps_judged": 0, "ops": {}, "restarts": len(segments) - 1,
        "fresh_queries": len(queries), "healthy_evals": 0,
        "planted_log_checks": 0, "model_compares": 0, "v_compares": 0,
        "faults_fired": {}, "faults_armed": 0, "clock_calls": 0,
        "clock_span_s": 0.0, "clock_backward": 0, "states": set(),
        "probes": {}, "excused_steps": 0, "weak_evals": 0}

  def probe(name, n=1):
    st["probes"][name] = st["probes"].get(name, 0) + n

  events = []
  for seg in segments:
    events += seg["events"]
    st["clock_calls"] += seg["clock"]["calls"]
    st["clock_span_s"] += seg["clock"]["span_s"]
    st["clock_backward"] += seg["clock"]["backward_jumps"]
    for f in seg["faults_fired"]:
      st["faults_fired"][f[0]] = st["faults_fired"].get(f[0], 0) + 1
    fe = seg.get("log_counts", {}).get("FORMAT_ERROR", 0)
    if fe:
      st["probes"]["log_message_format_errors_swallowed_by_logging"] = fe
    if seg.get("call_fired"):
      st["faults_fired"]["call_fail"] = \
          st["faults_fired"].get("call_fail", 0) + seg["call_fired"]
    if seg.get("alloc_fired"):
      st["faults_fired"]["alloc_fail"] = \
          st["faults_fired"].get("alloc_fail", 0) + seg["alloc_fired"]
    if seg["storage_fired"]:
      st["faults_fired"]["storage_raise"] = \
          st["faults_fired"].get("storage_raise", 0) + seg["storage_fired"]

  # tracked annotation per pool member (continuity across ops / restarts)
  tracked = [M.empty() for _ in pool]
  consistent = [True] * len(pool)
  for idx, ann in (plan.get("initial_annotations") or {}).items():
    tracked[int(idx)] = ann
    consistent[int(idx)] = _ann_consistent(ann)
  seen_v = {}       # (check cfg, artifact idx) -> (step, entries, infos)
  seen_joint = {}   # (check cfg, batch tuple) -> (step, V, process epoch)
  epoch = [0]       # process lifetime counter (restarts lose the cached tables)
  last_ops = []

  for ev in events:
    i = ev["i"]
    op = ops[i]
    name = op["op"]
    st["ops"][name] = st["ops"].get(name, 0) + 1
    last_ops = (last_ops + [name])[-3:]
    if name == "clone":
      for j in op["batch"]:
        tracked[j] = M.empty()
        consistent[j] = True
      continue
    if name == "preannotate":
      tracked[op["idx"]] = op["ann"]
      consistent[op["idx"]] = _ann_consistent(op["ann"])
      continue
    if name == "seam_fault":
      st["faults_armed"] += 1
      continue
    if name == "restart":
      epoch[0] += 1
    if name in ("persist_reload", "restart", "heal", "curve_op",
                "reimport_version"):
      continue
    if name == "bad_call":
      probe("bad_call_raised" if _raised(ev["ret"]) else "bad_call_returned")
      continue

    # ---- check / check_all --------------------------------------------------
    batch = op["batch"]
    arts = [pool[j] for j in batch]
    is_all = name == "check_all"
    cname = "ALL" if is_all else op["check"]["name"]
    cfg = "ALL" if is_all else core.canon(
        {k: v for k, v in op["check"].items() if k not in ("via",)})
    default_params = is_all or not (op["check"].get("params") or {}) or \
        op["check"].get("default_equiv", False)
    excused = ev["fired"] > 0
    st["steps_judged"] += 1
    sig = hashlib.sha256(core.canon(
        [kind, cname, ev["state_before"], last_ops,
         sorted(a["fam"] for a in arts),
         [(len(p["entries"]), p["weak"], len(p["infos"])) for p in ev["pre"]]
         ]).encode()).hexdigest()[:10]
    trivial = (not ev["state_before"]["registry"] and
               not ev["state_before"]["tables"] and
               all(a["healthy"] for a in arts) and
               all(not p["entries"] for p in ev["pre"]))
    if not trivial:
      st["states"].add(sig)

    # continuity: nothing but this op's batch changed since the last op
    for pos, j in enumerate(batch):
      if not _same_ann(tracked[j], ev["pre"][pos]):
        viol.append(_viol("C16", "continuity", i, cname,
                          "annotation of pool[%d] changed outside any "
                          "operation on it (or did not survive persist/"
                          "restart)" % j, detail={"tracked": tracked[j],
                                                  "pre": ev["pre"][pos]}))
    if excused or ev["V"] is None:
      st["excused_steps"] += 1
      probe("step_excused_by_fired_fault" if excused else
            "step_without_clean_run_not_judged")
      if excused and _raised(ev["ret"]):
        probe("faulted_call_raised")
      for pos, j in enumerate(batch):
        tracked[j] = ev["post"][pos]
      continue

    # ---- C18: totality ------------------------------------------------------
    wf = all(a["wf"] for a in arts)
    for which in ("ret_clean", "ret"):
      ret = ev[which]
      if not wf:
        continue
      if _raised(ret) and ret.get("stage") == "registry" and \
          ret["exc"] == "KeyError":
        viol.append(_viol(
            "C16", "registry_incomplete", i, "getter",
            "declared active check %s is missing from the registry the "
            "getter publishes (registry before the step: %s)" %
            (cname, ev["state_before"]["registry"])))
        break
      if _raised(ret) and ret["exc"] == "CallTimeout":
        viol.append(_viol(
            "C18", "hangs", i, cname,
            "%s on a well-formed %s batch of %d did not return (%s); "
            "families %s" % (cname, kind, len(arts), ret.get("msg"),
                             [a["fam"] for a in arts]),
            _known_c18(kind, cname, arts, ret, plan),
            {"state_before": ev["state_before"]}))
        break
      if _raised(ret):
        known = _known_c18(kind, cname, arts, ret, plan)
        viol.append(_viol(
            "C18", "raises", i, "%s:%s" % (cname, ret["exc"]),
            "%s on a well-formed %s batch of %d raised %s" %
            (cname, kind, len(arts), _fmt_exc(ret)), known,
            {"families": [a["fam"] for a in arts], "which": which,
             "state_before": ev["state_before"]}))
        break
      if ret["type"] != "bool":
        viol.append(_viol("C18", "not_bool", i, cname,
                          "%s returned %s, not bool" % (cname, ret["type"])))
        break
    if ev["armed"]:
      probe("judged_step_while_fault_armed_but_not_fired")
    if _raised(ev["ret_clean"]) or _raised(ev["ret"]):
      # nothing more can be said about a raising call
      for pos, j in enumerate(batch):
        tracked[j] = ev["post"][pos]
      continue

    V = ev["V"]
    # ---- C07: healthy artifacts are never accused --------------------------
    if default_params and op.get("c07", True):
      weak_issuers = _weak_issuers(arts) if kind == "ecdsa" else set()
      all_healthy = True
      for pos, a in enumerate(arts):
        healthy = a["healthy"] and (kind != "ecdsa" or
                                    a["issuer"] not in weak_issuers)
        if not healthy:
          all_healthy = False
          st["weak_evals"] += 1
          continue
        st["healthy_evals"] += 1
        pos_entries = [e for e in V[pos]["entries"] if e[1]]
        if pos_entries or V[pos]["weak"]:
          viol.append(_viol(
              "C07", "healthy_accused", i,
              ",".join(sorted(e[0] for e in pos_entries)) or "weak_flag",
              "healthy %s artifact (pool[%d], %s) accused by %s in a batch of "
              "%d (%s)" % (kind, batch[pos], a["fam"],
                           [e[0] for e in pos_entries] or "weak flag",
                           len(arts), cname),
              detail={"neighbours": [x["fam"] for x in arts],
                      "artifact": a}))
      if all_healthy and arts and ev["ret_clean"]["val"] is not False:
        viol.append(_viol("C07", "all_healthy_batch_true", i, cname,
                          "%s returned True on an all-healthy batch" % cname))
      if all_healthy and arts:
        probe("all_healthy_batch")

    # ---- C16: bookkeeping ---------------------------------------------------
    _judge_c16(ctx, plan, op, ev, arts, batch, is_all, cname, consistent,
               viol, st, probe)
    for pos, j in enumerate(batch):
      tracked[j] = ev["post"][pos]

    # ---- C10 (check level): planted logs / small differences ---------------
    if kind in ("ec", "ecdsa"):
      _judge_c10(ctx, plan, op, ev, arts, batch, is_all, cname, viol, st,
                 probe)

    # ---- C17 inside the subject: same artifact, same check, other context --
    _judge_c17_history(plan, op, ev, arts, batch, is_all, cname, cfg, seen_v,
                       seen_joint, viol, st, probe, epoch[0])

  # artifacts untouched at the very end
  final = segments[-1]["pool_snap"]
  for j, sn in enumerate(final):
    if not _same_ann(tracked[j], sn):
      viol.append(_viol("C16", "continuity", len(ops), "final",
                        "annotation of pool[%d] at the end differs from the "
                        "last recorded post-state" % j))

  # ---- C17 against FRESH processes ------------------------------------------
  ev_by_i = {ev["i"]: ev for ev in events}
  for q, fr in zip(queries, fresh):
    _judge_c17_fresh(plan, q, fr, ev_by_i, viol, st, probe)

  st["states"] = sorted(st["states"])
  digest_events = [_strip_event(ev) for ev in events]
  digest_events.append({"fresh": [[_canon_snap(x) for x in f["V"]]
                                  for f in fresh]})
  return digest_events, _dedup(viol), st


def _canon_snap(sn):
  """Factor records as sorted integer lists (their text order depends on
  PYTHONHASHSEED, S8)."""
  if not isinstance(sn, dict) or "infos" not in sn:
    return sn
  infos = []
  for name, text in sn["infos"]:
    if name in M.FACTOR_INFOS:
      try:
        infos.append([name, sorted(M.parse_factors(text))])
        continue
      except Exception:  # pylint: disable=broad-except
        pass
    infos.append([name, text])
  out = dict(sn)
  out["infos"] = infos
  return out


def _strip_event(ev):
  out = {}
  for k, v in ev.items():
    if k in ("V", "pre", "post", "post_bad") and v is not None:
      out[k] = [_canon_snap(x) for x in v]
    else:
      out[k] = v
  return out


def _dedup(viol):
  out, seen = [], set()
  for v in viol:
    k = (v["property"], v["key"], v["step"], v["message"])
    if k not in seen:
      seen.add(k)
      out.append(v)
  return out


def _same_ann(a, b):
  if bool(a["weak"]) != bool(b["weak"]) or a["ver"] != b["ver"]:
    return False
  if [list(e) for e in a["entries"]] != [list(e) for e in b["entries"]]:
    return False
  return M.sem_infos(a["infos"])[0] == M.sem_infos(b["infos"])[0]


def _ann_consistent(ann):
  return bool(ann["weak"]) == any(e[1] for e in ann["entries"])


def _weak_issuers(arts):
  return {a["issuer"] for a in arts if not a["healthy"]}


def _known_c18(kind, cname, arts, ret, plan):
  # F1 and F2 were repaired in /repo ("fixed:" lines suppress nothing)
  return None


# ----------------------------------------------------------------------------
# C16
# ----------------------------------------------------------------------------


def _judge_c16(ctx, plan, op, ev, arts, batch, is_all, cname, consistent,
               viol, st, probe):
  i = ev["i"]
  V = ev["V"]
  any_v = False
  for pos, j in enumerate(batch):
    a = arts[pos]
    v, pre, post = V[pos], ev["pre"][pos], ev["post"][pos]
    any_v = any_v or any(e[1] for e in v["entries"])
    # (1) exact refinement of the merge model
    pred = M.merge(pre, v, ctx.lib_version)
    st["model_compares"] += 1
    for clause, msg in M.compare(pred, post):
      viol.append(_viol("C16", "model:" + clause, i, cname,
                        "after %s on pool[%d] (%s): %s" %
                        (cname, j, a["fam"], msg),
                        detail={"pre": pre, "V": v, "post": post}))
    if pre["entries"]:
      probe("rerun_on_annotated_artifact")
      pre_pos = {e[0] for e in pre["entries"] if e[1]}
      v_neg = {e[0] for e in v["entries"] if not e[1]}
      if pre_pos & v_neg:
        probe("rerun_V_negative_over_positive_record")
    # (2) statement clauses on the per-call verdict itself
    vn = _entries_by_name(v)
    for name, lst in vn.items():
      if len(lst) > 1:
        viol.append(_viol("C16", "duplicate_in_call", i, name,
                          "one call wrote %d entries named %s" %
                          (len(lst), name)))
    if bool(v["weak"]) != any(e[1] for e in v["entries"]):
      viol.append(_viol("C16", "weak_iff_positive", i, cname,
                        "clean artifact after %s: weak=%s but positive "
                        "entries=%s" % (cname, v["weak"],
                                        [e[0] for e in v["entries"] if e[1]])))
    if consistent[j] and bool(post["weak"]) != any(
        e[1] for e in post["entries"]):
      viol.append(_viol("C16", "weak_iff_positive", i, cname,
                        "pool[%d] after %s: weak=%s but positive entries=%s" %
                        (j, cname, post["weak"],
                         [e[0] for e in post["entries"] if e[1]])))
    if v["entries"] and not v["ver"]:
      viol.append(_viol("C16", "version", i, cname,
                        "library version not recorded by %s" % cname))
    # severities of fresh entries
    for name, res, sev in v["entries"]:
      exp = _expected_severity(ctx, name, res, v, ev, a, is_all)
      if exp is not None and sev not in exp:
        viol.append(_viol("C16", "severity", i, name,
                          "entry %s (result=%s) carries severity %d, "
                          "documented %s" % (name, res, sev, sorted(exp))))
    # exactly one entry per applicable active check after an all-checks call
    if is_all:
      for name in ctx.active[ctx.kind]:
        app = ctx.applicable(name, a)
        n = len(vn.get(name, []))
        if (app is True and n != 1) or (app is None and n > 1):
          viol.append(_viol(
              "C16", "one_entry_per_active_check", i,
              "missing" if n == 0 else "duplicated",
              "after the all-checks entry point pool[%d] (%s) has %d entries "
              "for active check %s" % (j, a["fam"], n, name),
              _known_c16_registry(ev), {"state_before": ev["state_before"]}))
      for name in vn:
        if name not in ctx.active[ctx.kind]:
          viol.append(_viol("C16", "entry_not_named_after_active_check", i,
                            name, "entry %s is not an active check" % name))
    else:
      for name in vn:
        if name != cname:
          viol.append(_viol("C16", "entry_name", i, cname,
                            "%s wrote an entry named %s" % (cname, name)))
  # return value <=> some artifact weak by this call
  if ev["ret_clean"]["val"] != any_v:
    viol.append(_viol("C16", "return_value", i, cname,
                      "%s returned %s but positive verdicts in this call=%s" %
                      (cname, ev["ret_clean"]["val"], any_v)))
  # issuer-key verdict equals the EC verdict on that key
  if "issuer_oracle" in ev and not _raised(ev["issuer_oracle"]["ret"]):
    keys = ev["issuer_oracle"]["keys"]
    for pos, a in enumerate(arts):
      o = keys["%d:%s:%s" % (a["curve"], a["ix"], a["iy"])]
      ents = _entries_by_name(V[pos]).get("CheckIssuerKey", [])
      if len(ents) != 1:
        continue
      res, sev = ents[0]
      st["probes"]["issuer_oracle_compares"] = \
          st["probes"].get("issuer_oracle_compares", 0) + 1
      if res != o["weak"]:
        viol.append(_viol(
            "C16", "issuer_verdict", i, "result",
            "signature pool[%d]: CheckIssuerKey result=%s but the EC checks "
            "on its issuer key say weak=%s" % (batch[pos], res, o["weak"]),
            _known_issuer(arts, a), {"issuer": a["issuer"],
                                     "ec_entries": o["entries"]}))
      elif res:
        # computed here from the EC entries, not with the library's helper
        failed = [e[2] for e in o["entries"] if e[1]]
        want = max(failed) if failed else None
        if sev != want:
          viol.append(_viol(
              "C16", "issuer_verdict", i, "severity",
              "signature pool[%d]: CheckIssuerKey severity=%d, highest "
              "severity among the issuer key's failed EC checks=%s (%s)" %
              (batch[pos], sev, want,
               [(e[0], e[2]) for e in o["entries"] if e[1]]),
              _known_issuer(arts, a)))
        elif len(set(failed)) > 1:
          st["probes"]["issuer_key_failed_checks_of_different_severity"] = \
              st["probes"].get(
                  "issuer_key_failed_checks_of_different_severity", 0) + 1


def _known_c16_registry(ev):
  return None


def _known_issuer(arts, a):
  return None


def _expected_severity(ctx, name, res, v, ev, art, is_all=True):
  """Set of acceptable severities for a fresh entry, or None if unknown."""
  if name == "CheckIssuerKey":
    if not res:
      return {ctx.sev["SEVERITY_UNKNOWN"]}
    return None  # judged against the issuer oracle
  doc = ctx.doc_sev.get(name)
  if doc is None:
    return None
  if name == "CheckLowHammingWeight" and res:
    has_factors = any(n == "N_FACTORS" for n, _ in v["infos"])
    if not has_factors:
      return {ctx.sev["SEVERITY_UNKNOWN"]}
    if not is_all:
      return {doc}       # the factors were attached by this very check
    # factors may stem from another check of the same all-checks call
    return {doc, ctx.sev["SEVERITY_UNKNOWN"]}
  return {doc}


# ----------------------------------------------------------------------------
# C10 at check level
# ----------------------------------------------------------------------------


def _judge_c10(ctx, plan, op, ev, arts, batch, is_all, cname, viol, st,
               probe):
  if ctx.kind != "ec":
    return
  i = ev["i"]
  V = ev["V"]
  runs_priv = is_all or cname == "CheckWeakECPrivateKey"
  runs_diff = is_all or cname == "CheckECKeySmallDifference"
  max_diff = plan["knobs"].get("max_diff") or 2**24   # None = shipped default
  if not is_all and cname == "CheckECKeySmallDifference":
    max_diff = (op["check"].get("params") or {}).get("max_diff", max_diff)
  for pos, a in enumerate(arts):
    vn = _entries_by_name(V[pos])
    infos = dict((n, t) for n, t in V[pos]["infos"])
    if runs_priv and a["fam"].startswith("weak_priv:"):
      st["planted_log_checks"] += 1
      ent = vn.get("CheckWeakECPrivateKey", [])
      d = int(a["d"], 16) if a["d"] else 0
      got = infos.get("DISCRETE_LOG")
      c = A.curves()[a["curve"]]
      ok = bool(ent) and ent[0][0] and got is not None and \
          (int(got, 16) - d) % int(c.n) == 0
      # the caller's (possibly already annotated) protobuf must end up flagged
      # with that private key as well
      pn = _entries_by_name(ev["post"][pos]).get("CheckWeakECPrivateKey", [])
      pinfo = dict((n2, t2) for n2, t2 in ev["post"][pos]["infos"])
      pgot = pinfo.get("DISCRETE_LOG")
      try:
        pok = bool(pn) and any(e[0] for e in pn) and pgot is not None and \
            (int(pgot, 16) - d) % int(c.n) == 0
      except ValueError:
        pok = False
      if ok and not pok:
        viol.append(_viol(
            "C10", "structured_key_missed_on_annotated", i,
            a["fam"].split(":")[1][:6],
            "EC key pool[%d] (%s): flagged on a clean copy but the caller's "
            "already annotated protobuf is not flagged with its private key "
            "(annotation before the call: weak=%s, %d entries)" %
            (batch[pos], a["fam"], ev["pre"][pos]["weak"],
             len(ev["pre"][pos]["entries"]))))
      if not ok:
        viol.append(_viol(
            "C10", "structured_key_missed", i, a["fam"].split(":")[1][:6],
            "EC key pool[%d] with private key v*m (v=%d, %s) on %s: flagged=%s "
            "recorded log=%s (batch of %d, tables before=%s)" %
            (batch[pos], a["truth"]["v"], a["fam"], c.name,
             bool(ent and ent[0][0]), got, len(arts),
             ev["state_before"]["tables"]),
            detail={"artifact": a}))
    if runs_diff and a["fam"] == "small_diff":
      # partner present in the same batch?
      partner = [b for b in arts if b is not a and b["fam"] == "small_diff"
                 and b["curve"] == a["curve"] and
                 b["truth"].get("pair") == a["truth"].get("pair")]
      if partner and abs(a["truth"]["delta"]) < max_diff:
        st["planted_log_checks"] += 1
        ent = vn.get("CheckECKeySmallDifference", [])
        if not (ent and ent[0][0] and "DISCRETE_LOG_DIFF" in infos):
          viol.append(_viol(
              "C10", "small_difference_missed", i, "pair",
              "EC keys differing by %d (< max_diff %d): pool[%d] not flagged" %
              (a["truth"]["delta"], max_diff, batch[pos]),
              detail={"artifact": a}))
    if runs_diff and a["fam"] == "small_diff_chain":
      roles = {b["truth"]["role"] for b in arts
               if b["fam"] == "small_diff_chain" and
               b["truth"].get("pair") == a["truth"].get("pair")}
      need = {"lo": {"mid"}, "hi": {"mid"}, "mid": {"lo", "hi"}}[
          a["truth"]["role"]]
      if roles & need and a["truth"]["delta"] < max_diff:
        st["planted_log_checks"] += 1
        ent = vn.get("CheckECKeySmallDifference", [])
        if not (ent and ent[0][0]):
          viol.append(_viol(
              "C10", "small_difference_missed", i, "chain",
              "EC key pool[%d] (%s of a chain d-m, d, d+m with m=%d < "
              "max_diff %d) has a close partner in the batch but is not "
              "flagged (batch order %s)" %
              (batch[pos], a["truth"]["role"], a["truth"]["delta"], max_diff,
               [b["truth"].get("role", "-") for b in arts])))
    if runs_diff and a["fam"] == "duplicate":
      # identical keys must not be flagged because of each other
      others = [b for b in arts if b is not a and b["curve"] == a["curve"] and
                b["fam"] not in ("duplicate", "healthy")]
      ent = vn.get("CheckECKeySmallDifference", [])
      if not others and ent and ent[0][0]:
        viol.append(_viol("C10", "identical_keys_flagged", i, "dup",
                          "identical EC keys flagged as a small-difference "
                          "pair (pool[%d])" % batch[pos]))


# ----------------------------------------------------------------------------
# C17
# ----------------------------------------------------------------------------


def _evidence(v, names):
  sem, _ = M.sem_infos(v["infos"])
  return {n: sem[n] for n in names if n in sem}


def _known_c17(a, name):
  if name == "CheckWeakECPrivateKey" and a.get("fam") == "overshoot":
    return "batchdl_overshoot_zone"
  if name in TABLE_MONOTONE and a.get("fam") == "far_diff":
    return "smalldiff_beyond_max_diff"
  return None


def _judge_c17_history(plan, op, ev, arts, batch, is_all, cname, cfg, seen_v,
                       seen_joint, viol, st, probe, epoch=0):
  i = ev["i"]
  V = ev["V"]
  kind = plan["kind"]
  for pos, j in enumerate(batch):
    vn = _entries_by_name(V[pos])
    for name, lst in vn.items():
      if name not in INDIVIDUAL or len(lst) != 1:
        continue
      # evidence is attributable only for single-check calls
      evid = None if is_all else _evidence(V[pos], ("N_FACTORS",
                                                    "DISCRETE_LOG"))
      key = (cfg if not is_all else "ALL:" + name, name, _art_ident(arts[pos]))
      cur = (i, lst[0], evid, len(arts), pos)
      if key in seen_v:
        st["v_compares"] += 1
        p = seen_v[key]
        if p[1] != cur[1] or (p[2] is not None and evid is not None and
                              p[2] != evid):
          viol.append(_viol(
              "C17", "individual_verdict_differs", i, name,
              "%s on the same %s artifact (pool[%d], %s): step %d (batch of "
              "%d, pos %d) gave %s, step %d (batch of %d, pos %d) gives %s" %
              (name, kind, j, arts[pos]["fam"], p[0], p[3], p[4], p[1], i,
               len(arts), pos, cur[1]), _known_c17(arts[pos], name),
              {"evidence_then": p[2], "evidence_now": evid}))
      else:
        seen_v[key] = cur
  # joint checks: the same batch (as a sequence) later in the history
  jkey = (cfg, tuple(batch))
  cur = [(_entries_by_name(v)) for v in V]
  if jkey in seen_joint:
    p_step, p, p_epoch = seen_joint[jkey]
    st["v_compares"] += 1
    for pos in range(len(batch)):
      for name in cur[pos]:
        if name in INDIVIDUAL or name not in p[pos]:
          continue
        a_then, a_now = p[pos][name], cur[pos][name]
        if a_then == a_now:
          continue
        if name in TABLE_MONOTONE:
          # flagged earlier => still flagged (the table only grows within one
          # process lifetime; a restart loses it, so no claim across restarts)
          if p_epoch == epoch and a_then[0][0] and not a_now[0][0]:
            viol.append(_viol("C17", "joint_verdict_lost", i, name,
                              "%s flagged pool[%d] at step %d but not at step "
                              "%d on the same batch" %
                              (name, batch[pos], p_step, i),
                              _known_c17(arts[pos], name)))
        else:
          viol.append(_viol("C17", "joint_verdict_differs", i, name,
                            "%s on the same batch gives %s at step %d and %s "
                            "at step %d for pool[%d]" %
                            (name, a_then, p_step, a_now, i, batch[pos])))
    if p_epoch != epoch:
      seen_joint[jkey] = (i, cur, epoch)
  else:
    seen_joint[jkey] = (i, cur, epoch)


def _art_ident(a):
  return core.canon({k: v for k, v in a.items()
                     if k in ("t", "n", "e", "curve", "x", "y", "ix", "iy",
                              "r", "s", "h")})


def _judge_c17_fresh(plan, q, fr, ev_by_i, viol, st, probe):
  """Compares a FRESH-process query with the subject's V of the same step."""
  ev = ev_by_i.get(q["step"])
  if ev is None or "V" not in ev or ev["fired"] > 0:
    return
  if _raised(ev["ret_clean"]):
    return
  op = plan["ops"][q["step"]]
  is_all = op["op"] == "check_all"
  cname = "ALL" if is_all else op["check"]["name"]
  i = q["step"]
  rel = q["relation"]
  if _raised(fr["ret"]):
    if all(a["wf"] for a in q["arts"]):
      viol.append(_viol("C18", "raises", i, "%s:%s" % (cname, fr["ret"]["exc"]),
                        "%s (%s variant, fresh process) raised %s" %
                        (cname, rel, _fmt_exc(fr["ret"])),
                        _known_c18(plan["kind"], cname, q["arts"], fr["ret"],
                                   plan)))
    return
  probe("fresh_" + rel)
  subj_arts = [plan["pool"][j] for j in op["batch"]]
  subj = {}
  for pos, a in enumerate(subj_arts):
    subj.setdefault(_art_ident(a), []).append((pos, ev["V"][pos]))
  for fpos, a in enumerate(q["arts"]):
    ident = _art_ident(a)
    if ident not in subj:
      continue   # an added healthy artifact
    fv = fr["V"][fpos]
    for spos, sv in subj[ident]:
      fn, sn = _entries_by_name(fv), _entries_by_name(sv)
      for name in sorted(set(fn) | set(sn)):
        fe, se = fn.get(name), sn.get(name)
        st["v_compares"] += 1
        if fe == se:
          if name in INDIVIDUAL and not is_all and rel in ("same", "alone",
                                                           "perm", "plus"):
            fe_ev = _evidence(fv, ("N_FACTORS", "DISCRETE_LOG"))
            se_ev = _evidence(sv, ("N_FACTORS", "DISCRETE_LOG"))
            if fe_ev != se_ev:
              viol.append(_viol(
                  "C17", "individual_evidence_differs", i, name,
                  "%s evidence for pool[%d] differs between the history and a "
                  "fresh process (%s)" % (name, op["batch"][spos], rel),
                  _known_c17(a, name), {"fresh": fe_ev, "subject": se_ev}))
          continue
        if name in INDIVIDUAL:
          viol.append(_viol(
              "C17", "individual_verdict_differs", i, name,
              "%s on %s artifact pool[%d] (%s): %s in the history (batch of "
              "%d), %s %s in a fresh process" %
              (name, plan["kind"], op["batch"][spos], a["fam"], se,
               len(subj_arts), fe, rel), _known_c17(a, name)))
        elif rel == "alone":
          continue   # a joint check on a singleton says nothing about a batch
        elif name in TABLE_MONOTONE:
          if fe and fe[0][0] and not (se and se[0][0]):
            viol.append(_viol(
                "C17", "joint_verdict_lost", i, name,
                "%s flags pool[%d] in a fresh process (%s) but not after the "
                "history" % (name, op["batch"][spos], rel),
                _known_c17(a, name)))
        else:
          viol.append(_viol(
              "C17", "joint_verdict_differs", i, name,
              "%s verdict for pool[%d] (%s): %s in the history, %s in a fresh "
              "process (%s)" % (name, op["batch"][spos], a["fam"], se, fe,
                                rel)))


# ----------------------------------------------------------------------------
# minimisation
# ----------------------------------------------------------------------------


def minimise(plan, violation, deadline):
  from dst import runner

  def with_ops(ops):
    p = dict(plan)
    p["ops"] = ops
    return p

  def test(ops):
    try:
      _, viols, _ = execute(with_ops(ops))
    except core.HarnessError:
      return False
    return any(v["key"] == violation["key"] and
               v["property"] == violation["property"] for v in viols)

  ops = runner.ddmin(plan["ops"], test, deadline)
  small = with_ops(ops)
  # shrink batches of the remaining check ops
  import time
  for k, op in enumerate(list(small["ops"])):
    if time.time() >= deadline or "batch" not in op or \
        op["op"] == "bad_call" or len(op["batch"]) < 2:
      continue

    def test_batch(b, k=k, op=op):
      o2 = dict(op)
      o2["batch"] = b
      if "oracle" in o2:
        o2["oracle"] = [x for x in o2["oracle"] if x.get("relation") in
                        ("same", "alone")]
      cand = small["ops"][:k] + [o2] + small["ops"][k + 1:]
      return test(cand)

    nb = runner.ddmin(op["batch"], test_batch, deadline)
    if len(nb) < len(op["batch"]):
      o2 = dict(op)
      o2["batch"] = nb
      if "oracle" in o2:
        o2["oracle"] = [x for x in o2["oracle"] if x.get("relation") in
                        ("same", "alone")]
      small["ops"][k] = o2
  pruned = _prune_pool(small)
  if pruned is not small and time.time() < deadline + 60 and \
      test(pruned["ops"]) is not None:
    try:
      _, viols, _ = execute(pruned)
      if any(v["key"] == violation["key"] and
             v["property"] == violation["property"] for v in viols):
        return pruned
    except core.HarnessError:
      pass
  return small


def _prune_pool(plan):
  """Drops pool members no remaining op refers to (indices are remapped)."""
  used = set()
  for op in plan["ops"]:
    if op["op"] == "bad_call":
      continue
    used.update(op.get("batch", []))
    if "idx" in op:
      used.add(op["idx"])
    for it in op.get("oracle", []):
      used.update(it["order"])
  used.update(int(k) for k in (plan.get("initial_annotations") or {}))
  if len(used) == len(plan["pool"]) or not used:
    return plan
  order = sorted(used)
  remap = {old: new for new, old in enumerate(order)}
  p = dict(plan)
  p["pool"] = [plan["pool"][j] for j in order]
  p["initial_annotations"] = {str(remap[int(k)]): v for k, v in
                              (plan.get("initial_annotations") or {}).items()}
  ops = []
  for op in plan["ops"]:
    o = dict(op)
    if op["op"] != "bad_call" and "batch" in o:
      o["batch"] = [remap[j] for j in o["batch"]]
    if "idx" in o:
      o["idx"] = remap[o["idx"]]
    if "oracle" in o:
      o["oracle"] = [dict(it, order=[remap[j] for j in it["order"]])
                     for it in o["oracle"]]
    ops.append(o)
  p["ops"] = ops
  return p


# ----------------------------------------------------------------------------
# coverage
# ----------------------------------------------------------------------------


def coverage(prop, results):
  agg = {"ops": {}, "faults_fired": {}, "probes": {}}
  states = set()
  scalar = ("steps_judged", "restarts", "fresh_queries", "healthy_evals",
            "weak_evals", "planted_log_checks", "model_compares", "v_compares",
            "faults_armed", "clock_calls", "clock_backward", "excused_steps")
  span = 0.0
  kinds = {}
  for r in results:
    s = r["stats"]
    kinds[r["profile"]] = kinds.get(r["profile"], 0) + 1
    for k in scalar:
      agg[k] = agg.get(k, 0) + s.get(k, 0)
    span += s.get("clock_span_s", 0.0)
    for d in ("ops", "faults_fired", "probes"):
      for k, v in s.get(d, {}).items():
        agg[d][k] = agg[d].get(k, 0) + v
    states.update(s.get("states", []))
  agg["simulated_clock_span_s"] = round(span, 1)
  agg["runs_by_profile"] = kinds
  agg["process_lifetimes"] = len(results) + agg.get("restarts", 0)
  return {
      "evaluations": agg.get("steps_judged", 0),
      "distinct_nontrivial": len(states),
      "rule": "engine A: one evaluation = one judged check/check_all step of a "
              "history (executed on clean clones and on the annotated "
              "protobufs); distinct = distinct (artifact kind, check, registry "
              "fill state, per-curve table/cache sizes, last three op kinds, "
              "batch family multiset, annotation shape of the batch) "
              "signatures; trivial = first call on an all-healthy unannotated "
              "batch in a fresh process (not counted)",
      "samples": [r["sample"] for r in results[:3]],
      "counts": agg,
      "components": {
          "paranoid_crypto python": "real (working tree)",
          "paranoid_pb2/data_pb2": "in-memory substitute built from .proto",
          "time.time": "SimClock (jumps forward/backward)",
          "resource files": "real files behind fault wrapper + in-memory "
                            "denylist overlay",
          "Storage": "DefaultStorage (real) or scripted SimStorage subclass",
          "absl logging": "formatting sink"},
  }
