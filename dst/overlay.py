"""Overlay that makes the pinned checkout importable without protoc / pybind11.

* paranoid_pb2 / data_pb2 are built in memory from the working tree's .proto
  files (proto3 subset parser -> FileDescriptorProto -> descriptor pool ->
  reflection classes) and injected into sys.modules.  Nothing is written to
  the repository.
* The pybind Berlekamp-Massey extension is replaced by the *real* C++ code of
  the working tree compiled behind an extern "C" shim and loaded with ctypes.

Everything is rebuilt from the repository path given to bootstrap(), so a
scratch copy with a modified .proto or .cc is honoured.
"""

import ctypes
import hashlib
import os
import re
import subprocess
import sys
import types

_BOOTSTRAPPED = None

VERIF_ROOT = os.path.dirname(os.path.dirname(os.path.abspath(__file__)))
BUILD_DIR = os.path.join(VERIF_ROOT, ".build")


# ----------------------------------------------------------------------------
# proto3 subset parser
# ----------------------------------------------------------------------------

_SCALARS = {
    "double": 1, "float": 2, "int64": 3, "uint64": 4, "int32": 5,
    "fixed64": 6, "fixed32": 7, "bool": 8, "string": 9, "bytes": 12,
    "uint32": 13, "sfixed32": 15, "sfixed64": 16, "sint32": 17, "sint64": 18,
}
_TYPE_MESSAGE = 11
_TYPE_ENUM = 14
_LABEL_OPTIONAL = 1
_LABEL_REPEATED = 3


def _strip_comments(text):
  text = re.sub(r"/\*.*?\*/", "", text, flags=re.S)
  return re.sub(r"//[^\n]*", "", text)


def _tokenize(text):
  return re.findall(r"[A-Za-z_][A-Za-z0-9_.]*|-?\d+|\"[^\"]*\"|[{}=;<>,\[\]]",
                    text)


def _camel(name):
  return "".join(p.capitalize() for p in name.split("_"))


def parse_proto(text, file_name):
  """Parses a proto3 file (enums, messages, scalar/enum/message/map fields)."""
  from google.protobuf import descriptor_pb2
  toks = _tokenize(_strip_comments(text))
  fdp = descriptor_pb2.FileDescriptorProto()
  fdp.name = file_name
  fdp.syntax = "proto3"
  pos = 0
  enums, messages = set(), set()
  pending = []  # (field proto, type name) to resolve after parsing

  def expect(tok):
    nonlocal pos
    if toks[pos] != tok:
      raise ValueError("proto parse error at %r, expected %r" %
                       (toks[pos:pos + 5], tok))
    pos += 1

  while pos < len(toks):
    t = toks[pos]
    if t == "syntax":
      pos += 1
      expect("=")
      if toks[pos] != '"proto3"':
        raise ValueError("only proto3 supported")
      pos += 1
      expect(";")
    elif t == "package":
      fdp.package = toks[pos + 1]
      pos += 2
      expect(";")
    elif t in ("option", "import"):
      while toks[pos] != ";":
        pos += 1
      pos += 1
    elif t == "enum":
      e = fdp.enum_type.add()
      e.name = toks[pos + 1]
      enums.add(e.name)
      pos += 2
      expect("{")
      while toks[pos] != "}":
        v = e.value.add()
        v.name = toks[pos]
        pos += 1
        expect("=")
        v.number = int(toks[pos])
        pos += 1
        expect(";")
      pos += 1
    elif t == "message":
      m = fdp.message_type.add()
      m.name = toks[pos + 1]
      messages.add(m.name)
      pos += 2
      expect("{")
      while toks[pos] != "}":
        label = _LABEL_OPTIONAL
        if toks[pos] == "repeated":
          label = _LABEL_REPEATED
          pos += 1
        elif toks[pos] == "optional":
          pos += 1
        if toks[pos] == "map":
          pos += 1
          expect("<")
          ktype = toks[pos]
          pos += 1
          expect(",")
          vtype = toks[pos]
          pos += 1
          expect(">")
          fname = toks[pos]
          pos += 1
          expect("=")
          fnum = int(toks[pos])
          pos += 1
          expect(";")
          entry = m.nested_type.add()
          entry.name = _camel(fname) + "Entry"
          entry.options.map_entry = True
          kf = entry.field.add()
          kf.name, kf.number, kf.label = "key", 1, _LABEL_OPTIONAL
          kf.type = _SCALARS[ktype]
          kf.json_name = "key"
          vf = entry.field.add()
          vf.name, vf.number, vf.label = "value", 2, _LABEL_OPTIONAL
          vf.json_name = "value"
          if vtype in _SCALARS:
            vf.type = _SCALARS[vtype]
          else:
            pending.append((vf, vtype))
          f = m.field.add()
          f.name, f.number, f.label = fname, fnum, _LABEL_REPEATED
          f.type = _TYPE_MESSAGE
          f.type_name = ".%s.%s.%s" % (fdp.package, m.name, entry.name)
          continue
        ftype = toks[pos]
        fname = toks[pos + 1]
        pos += 2
        expect("=")
        fnum = int(toks[pos])
        pos += 1
        if toks[pos] == "[":
          while toks[pos] != "]":
            pos += 1
          pos += 1
        expect(";")
        f = m.field.add()
        f.name, f.number, f.label = fname, fnum, label
        if ftype in _SCALARS:
          f.type = _SCALARS[ftype]
        else:
          pending.append((f, ftype))
      pos += 1
    else:
      raise ValueError("proto parse error: unexpected %r" % t)

  for f, tname in pending:
    short = tname.split(".")[-1]
    if short in enums:
      f.type = _TYPE_ENUM
    elif short in messages:
      f.type = _TYPE_MESSAGE
    else:
      raise ValueError("unknown type %r" % tname)
    f.type_name = ".%s.%s" % (fdp.package, short)
  return fdp


def build_pb2_module(proto_path, file_name, module_name):
  """Builds a *_pb2 lookalike module from a .proto file (in memory)."""
  from google.protobuf import descriptor_pool
  from google.protobuf import message_factory
  from google.protobuf.internal import enum_type_wrapper
  with open(proto_path, "r") as fh:
    text = fh.read()
  fdp = parse_proto(text, file_name)
  pool = descriptor_pool.Default()
  try:
    fd = pool.Add(fdp)
  except TypeError:
    fd = None
  fd = pool.FindFileByName(file_name)
  mod = types.ModuleType(module_name)
  mod.DESCRIPTOR = fd
  factory = message_factory.MessageFactory(pool)
  for name, desc in fd.message_types_by_name.items():
    setattr(mod, name, factory.GetPrototype(desc))
  for name, desc in fd.enum_types_by_name.items():
    wrapper = enum_type_wrapper.EnumTypeWrapper(desc)
    setattr(mod, name, wrapper)
    for v in desc.values:
      setattr(mod, v.name, v.number)
  mod.__file__ = proto_path + " (in-memory)"
  return mod


# ----------------------------------------------------------------------------
# native Berlekamp-Massey shim
# ----------------------------------------------------------------------------

_SHIM_SRC = r"""
#include <cstdint>
#include <string>
#include "paranoid_crypto/lib/randomness_tests/cc_util/berlekamp_massey.h"
extern "C" int dst_lfsr_length(const char* data, long size, int length) {
  std::string s(data, (size_t)size);
  return paranoid_crypto::lib::randomness_tests::cc_util::LfsrLengthStr(s, length);
}
"""


def _native_sources(repo):
  d = os.path.join(repo, "paranoid_crypto/lib/randomness_tests/cc_util")
  return [os.path.join(d, "berlekamp_massey.cc"),
          os.path.join(d, "berlekamp_massey.h")]


def build_native(repo):
  """Compiles the working tree's C++ Berlekamp-Massey; returns path of .so."""
  srcs = _native_sources(repo)
  h = hashlib.sha256()
  h.update(_SHIM_SRC.encode())
  for s in srcs:
    with open(s, "rb") as fh:
      h.update(fh.read())
  tag = h.hexdigest()[:20]
  os.makedirs(BUILD_DIR, exist_ok=True)
  so = os.path.join(BUILD_DIR, "bm_%s.so" % tag)
  if os.path.exists(so):
    return so
  shim = os.path.join(BUILD_DIR, "bm_shim_%s_%d.cc" % (tag, os.getpid()))
  with open(shim, "w") as fh:
    fh.write(_SHIM_SRC)
  tmp = so + ".%d.tmp" % os.getpid()
  cmd = ["g++", "-O2", "-std=c++17", "-mpclmul", "-msse4.1", "-shared",
         "-fPIC", "-I", repo, shim, srcs[0], "-o", tmp]
  try:
    subprocess.run(cmd, check=True, capture_output=True, timeout=300)
    os.replace(tmp, so)
  finally:
    for p in (shim, tmp):
      if os.path.exists(p):
        os.unlink(p)
  return so


def _make_bm_module(so_path):
  lib = ctypes.CDLL(so_path)
  lib.dst_lfsr_length.argtypes = [ctypes.c_char_p, ctypes.c_long, ctypes.c_int]
  lib.dst_lfsr_length.restype = ctypes.c_int
  mod = types.ModuleType(
      "paranoid_crypto.lib.randomness_tests.cc_util.pybind.berlekamp_massey")

  def LfsrLength(ba, length):
    ba = bytes(ba)
    return int(lib.dst_lfsr_length(ba, len(ba), int(length)))

  mod.LfsrLength = LfsrLength
  mod.__file__ = so_path
  return mod


def _make_bm_python_module():
  """Fallback: pure python LfsrLength through LinearComplexityNative."""
  mod = types.ModuleType(
      "paranoid_crypto.lib.randomness_tests.cc_util.pybind.berlekamp_massey")

  def LfsrLength(ba, length):
    from paranoid_crypto.lib.randomness_tests import berlekamp_massey as bm
    return bm.LinearComplexityNative(int.from_bytes(bytes(ba), "little"),
                                     int(length))

  mod.LfsrLength = LfsrLength
  mod.__file__ = "(python fallback)"
  return mod


# ----------------------------------------------------------------------------
# bootstrap
# ----------------------------------------------------------------------------


def bootstrap(repo="/repo", native=True):
  """Makes `import paranoid_crypto...` work from `repo`.  Idempotent."""
  global _BOOTSTRAPPED
  repo = os.path.abspath(repo)
  if _BOOTSTRAPPED is not None:
    if _BOOTSTRAPPED != repo:
      raise RuntimeError("overlay already bootstrapped for %s" % _BOOTSTRAPPED)
    return repo
  sys.dont_write_bytecode = True
  for var in ("OPENBLAS_NUM_THREADS", "OMP_NUM_THREADS", "MKL_NUM_THREADS",
              "NUMEXPR_NUM_THREADS"):
    os.environ[var] = "1"
  # Make sure the working tree shadows any installed copy.
  sys.path[:] = [p for p in sys.path if os.path.abspath(p or ".") != repo]
  sys.path.insert(0, repo)
  for name in list(sys.modules):
    if name == "paranoid_crypto" or name.startswith("paranoid_crypto."):
      raise RuntimeError("paranoid_crypto imported before overlay bootstrap")
  import paranoid_crypto  # noqa: the real package from the working tree
  pkg_file = os.path.abspath(paranoid_crypto.__file__)
  if not pkg_file.startswith(repo + os.sep):
    raise RuntimeError("paranoid_crypto imported from %s, not from %s" %
                       (pkg_file, repo))
  pb2 = build_pb2_module(
      os.path.join(repo, "paranoid_crypto/paranoid.proto"),
      "paranoid_crypto/paranoid.proto", "paranoid_crypto.paranoid_pb2")
  sys.modules["paranoid_crypto.paranoid_pb2"] = pb2
  paranoid_crypto.paranoid_pb2 = pb2
  import paranoid_crypto.lib  # noqa
  import paranoid_crypto.lib.data as data_pkg
  dpb2 = build_pb2_module(
      os.path.join(repo, "paranoid_crypto/lib/data/data.proto"),
      "paranoid_crypto/lib/data/data.proto",
      "paranoid_crypto.lib.data.data_pb2")
  sys.modules["paranoid_crypto.lib.data.data_pb2"] = dpb2
  data_pkg.data_pb2 = dpb2

  import paranoid_crypto.lib.randomness_tests.cc_util.pybind as pyb
  bm = None
  if native:
    try:
      bm = _make_bm_module(build_native(repo))
    except Exception as ex:  # pylint: disable=broad-except
      sys.stderr.write("overlay: native build failed (%s); python fallback\n" %
                       ex)
  if bm is None:
    bm = _make_bm_python_module()
  sys.modules[bm.__name__] = bm
  pyb.berlekamp_massey = bm
  _BOOTSTRAPPED = repo
  return repo


def repo_revision(repo):
  try:
    out = subprocess.run(["git", "-C", repo, "describe", "--always", "--dirty"],
                         capture_output=True, text=True, timeout=30)
    return out.stdout.strip() or "unknown"
  except Exception:  # pylint: disable=broad-except
    return "unknown"
