"""Entry point.

  python -m dst.cli check <Cxx> [--tier quick|thorough] [--repo PATH]
                                [--workers N] [--runs N] [--budget S]
  python -m dst.cli replay <file> [--repo PATH]
  python -m dst.cli selftest determinism [--runs N] ...

Exit codes: 0 property held on everything explored; 1 violation (a line
`VIOLATION property=<id> replay=<path>` is printed); 2 harness error.
"""

import argparse
import json
import os
import sys
import time

from dst import core
from dst import overlay
from dst import runner


def _bootstrap(repo):
  overlay.bootstrap(repo)
  from dst import seams
  # import everything in the master so that forked children never import
  import numpy  # noqa
  import scipy.special  # noqa
  import fpylll  # noqa
  import gmpy2  # noqa
  from paranoid_crypto.lib import paranoid  # noqa
  from paranoid_crypto.lib import ec_util  # noqa
  from paranoid_crypto.lib import hidden_number_problem  # noqa
  from paranoid_crypto.lib.randomness_tests import rng  # noqa
  from paranoid_crypto.lib.randomness_tests import random_test_suite  # noqa
  seams.install_log_sink()
  assert_pristine()
  ntasks = len(os.listdir("/proc/self/task"))
  if ntasks != 1:
    raise core.HarnessError("master has %d OS threads before fork" % ntasks)


def assert_pristine():
  from paranoid_crypto.lib import paranoid
  from paranoid_crypto.lib import ec_util
  if any(paranoid._check_factory.values()):  # pylint: disable=protected-access
    raise core.HarnessError("check registry not empty in a pristine process")
  for curve in ec_util.CURVE_FACTORY.values():
    if curve is not None and (curve._table_size or curve._cache or
                              curve._table):
      raise core.HarnessError("curve cache not empty in a pristine process")


def _tier(args):
  t = args.tier or os.environ.get("VERIF_TIER") or "quick"
  if t not in ("quick", "thorough"):
    raise SystemExit("unknown tier %r" % t)
  return t


def _seed():
  try:
    return int(os.environ.get("VERIF_SEED", "0"))
  except ValueError:
    return 0


def cmd_check(args):
  from dst import checks
  t0 = time.time()
  tier = _tier(args)
  seed = _seed()
  prop = args.property
  print("dst: property=%s tier=%s VERIF_SEED=%d repo=%s rev=%s" %
        (prop, tier, seed, args.repo, overlay.repo_revision(args.repo)))
  sys.stdout.flush()
  _bootstrap(args.repo)
  if (args.runs is not None or args.profile or args.budget or
      args.fail_fast) and not args.evidence:
    args.no_evidence = True     # partial runs never overwrite the evidence
  spec = checks.spec(prop, tier, seed, args)
  workers = args.workers or spec.get("workers") or min(16, os.cpu_count() or 1)
  known = core.load_known()
  state = {"done": 0}

  def on_result(res):
    state["done"] += 1
    if args.fail_fast and res["ok"]:
      for v in res["violations"]:
        if v["property"] == prop and not (
            v.get("known") and core.known_for(known, prop, v["known"])):
          state["stop"] = True
    if args.verbose:
      print("  run %s/%s/%s %s wall=%.1fs viol=%d" %
            (res["engine"], res["profile"], res["run_index"],
             "ok" if res["ok"] else "HARNESS-ERROR", res["wall"],
             len(res.get("violations") or [])))
      sys.stdout.flush()

  results, skipped = runner.run_jobs(spec["jobs"], workers,
                                     args.budget or spec["budget_s"],
                                     on_result,
                                     stop=lambda: state.get("stop", False))
  rc = checks.report(prop, tier, seed, spec, results, skipped, known, t0,
                     args)
  return rc


def cmd_replay(args):
  from dst import checks
  _bootstrap(args.repo)
  doc = core.read_replay(args.file)
  return checks.replay(doc, args)


def cmd_minimise(args):
  """Minimises a replay file in place against --repo (must reproduce there)."""
  import time as _t
  from dst import checks
  _bootstrap(args.repo)
  doc = core.read_replay(args.file)
  eng = runner.engine_module(doc["engine"])
  small = eng.minimise(doc["plan"], doc["violation"], _t.time() + args.budget)
  _, viols, _ = eng.execute(small)
  same = [v for v in viols if v["key"] == doc["violation"]["key"] and
          v["property"] == doc["property"]]
  if not same:
    print("minimise: violation does not reproduce on %s" % args.repo)
    return 2
  doc["original_ops"] = doc.get("original_ops", len(doc["plan"]["ops"]))
  doc["minimised_ops"] = len(small["ops"])
  doc["plan"], doc["violation"] = small, same[0]
  doc["repo_revision"] = overlay.repo_revision(args.repo)
  with open(args.file, "w") as fh:
    import json as _j
    _j.dump(doc, fh, sort_keys=True, indent=1, default=core._json_default)  # pylint: disable=protected-access
  print("minimise: %d -> %d ops" % (doc["original_ops"], doc["minimised_ops"]))
  return 0


def cmd_regress(args):
  """Replays every file under replays/fixed: none may reproduce on --repo."""
  import glob
  from dst import checks
  _bootstrap(args.repo)
  bad = 0
  files = sorted(glob.glob(os.path.join(core.REPLAY_DIR, "fixed", "*.json")))
  for f in files:
    doc = core.read_replay(f)
    args.file = f
    rc = checks.replay(doc, args)
    if rc != 0 and not doc["violation"].get("known"):
      bad += 1
  print("regress: %d files, %d reproduce" % (len(files), bad))
  return 1 if bad else 0


def cmd_selftest(args):
  from dst import selftest
  _bootstrap(args.repo)
  return selftest.run(args)


def main(argv=None):
  ap = argparse.ArgumentParser(prog="dst")
  sub = ap.add_subparsers(dest="cmd", required=True)
  c = sub.add_parser("check")
  c.add_argument("property")
  c.add_argument("--tier")
  c.add_argument("--repo", default="/repo")
  c.add_argument("--workers", type=int)
  c.add_argument("--runs", type=int)
  c.add_argument("--budget", type=float)
  c.add_argument("--profile")
  c.add_argument("--no-minimise", action="store_true")
  c.add_argument("--fail-fast", action="store_true",
                 help="stop handing out runs after the first new violation "
                      "(sensitivity sweeps); implies no evidence")
  c.add_argument("--no-evidence", action="store_true")
  c.add_argument("--evidence", action="store_true",
                 help="write evidence even for a partial (--runs/--profile) run")
  c.add_argument("--verbose", "-v", action="store_true")
  c.set_defaults(fn=cmd_check)
  r = sub.add_parser("replay")
  r.add_argument("file")
  r.add_argument("--repo", default="/repo")
  r.add_argument("--verbose", "-v", action="store_true")
  r.set_defaults(fn=cmd_replay)
  m = sub.add_parser("minimise")
  m.add_argument("file")
  m.add_argument("--repo", default="/repo")
  m.add_argument("--budget", type=float, default=300.0)
  m.set_defaults(fn=cmd_minimise)
  g = sub.add_parser("regress")
  g.add_argument("--repo", default="/repo")
  g.add_argument("--verbose", "-v", action="store_true")
  g.set_defaults(fn=cmd_regress)
  s = sub.add_parser("selftest")
  s.add_argument("what", choices=["determinism", "models"])
  s.add_argument("--repo", default="/repo")
  s.add_argument("--runs", type=int, default=40)
  s.add_argument("--properties", default="")
  s.add_argument("--workers", type=int)
  s.add_argument("--tier", default="quick")
  s.add_argument("--reexec", action="store_true")
  s.add_argument("--emit", action="store_true",
                 help="internal: print digests as JSON and exit")
  s.set_defaults(fn=cmd_selftest)
  args = ap.parse_args(argv)
  try:
    rc = args.fn(args)
  except core.HarnessError as ex:
    print("HARNESS-ERROR: %s" % ex)
    rc = 2
  sys.stdout.flush()
  return rc


if __name__ == "__main__":
  sys.exit(main())
